"""Self-tests of the simulator (DESIGN.md §8). Run through `./check selftest <what>`.

  equivalence   the repository's own test suite passes on the instrumented copy with the map seam in
                pass-through, canonical, reverse and shuffle mode
  determinism   the same seeds give the same event logs in fresh processes, under GOMAXPROCS 1/4/16 and two
                shard layouts, and independently of the order in which cases are executed in one process
  sensitivity   deliberate breakages of the scratch copy turn the corresponding quick check red,
                the unbroken copy stays green
"""
import json, os, re, shutil, subprocess, sys, time


def run_equivalence(chk):
    root, binp = chk.build()
    repo = os.path.join(root, "repo")
    ok = True
    for mode in ["", "canonical", "reverse", "shuffle"]:
        env = dict(chk.GOENV)
        if mode:
            env["SIMRT_POLICY"] = mode
        t0 = time.time()
        r = subprocess.run(["go", "test", "-vet=off", "-count=1", "./..."], cwd=repo, env=env, stdout=subprocess.PIPE,
                           stderr=subprocess.STDOUT, text=True)
        lines = [l for l in r.stdout.splitlines() if l.startswith(("ok", "FAIL", "---", "panic"))]
        bad = [l for l in lines if not l.startswith("ok")]
        # the harness package itself has no tests; everything else must pass
        print("equivalence: mode=%-11s packages ok=%d failing=%d (%.0fs)" % (mode or "pass-through", len(lines) - len(bad), len(bad), time.time() - t0))
        if r.returncode != 0 or bad:
            ok = False
            print(r.stdout[-3000:])
    return ok


def worker(chk, binp, root, prop, seed, shard, nshards, cases, gomaxprocs, out, order=None, only=None):
    env = dict(chk.GOENV, GOMAXPROCS=str(gomaxprocs))
    tmp = out + ".tmp.d"
    os.makedirs(tmp, exist_ok=True)
    cmd = [binp, "-prop", prop, "-seed", str(seed), "-shard", str(shard), "-nshards", str(nshards), "-cases", str(cases),
           "-out", out, "-tmp", tmp, "-repo", os.path.join(root, "repo"), "-opt", "watchdog=120"]
    if only is not None:
        cmd += ["-only", str(only)]
    r = subprocess.run(cmd, cwd=tmp, env=env, stdout=subprocess.PIPE, stderr=subprocess.STDOUT, text=True)
    shutil.rmtree(tmp, ignore_errors=True)
    if r.returncode != 0:
        return None
    return json.load(open(out))


def digest(res):
    s = res["stats"]
    return (s["log_digest"], s["execs"], s["ticks"], s["map_events_multi"], tuple(sorted(res.get("nontrivial") or [])),
            tuple(sorted(v["key"] for v in (res.get("violations") or []))))


def run_determinism(chk, props, cases):
    root, binp = chk.build()
    d = os.path.join(chk.SCRATCH, "selftest-det-%d" % os.getpid())
    os.makedirs(d, exist_ok=True)
    ok = True
    try:
        for prop in props:
            n = cases.get(prop, 24)
            ref = None
            runs = 0
            # the same single shard, fresh processes, different GOMAXPROCS
            # (VERIF_DET_PROCS=30 for the large sample: a two-run diff misses a 1-in-8 divergence most of the time)
            nproc = int(os.environ.get("VERIF_DET_PROCS", "4"))
            gmps = ([1, 4, 16, 16] * ((nproc + 3) // 4))[:nproc]
            from concurrent.futures import ThreadPoolExecutor
            with ThreadPoolExecutor(max_workers=6) as ex:
                futs = [ex.submit(worker, chk, binp, root, prop, 1, 0, 1, n, gmp, os.path.join(d, "%s-a%d.json" % (prop, rep)))
                        for rep, gmp in enumerate(gmps)]
                outs = [f.result() for f in futs]
            for gmp, res in zip(gmps, outs):
                runs += 1
                if res is None:
                    print("determinism: %s: worker failed" % prop)
                    ok = False
                    break
                dg = digest(res)
                if ref is None:
                    ref = dg
                elif dg != ref:
                    print("determinism: %s: MISMATCH between fresh processes (GOMAXPROCS=%d)" % (prop, gmp))
                    ok = False
            # order independence: each case alone in its own process gives the same per-case log
            if ok and prop in ("C03", "C07", "C05"):
                whole = worker(chk, binp, root, prop, 1, 0, 1, 6, 4, os.path.join(d, "%s-w.json" % prop))
                acc = 0
                execs = 0
                for i in range(6):
                    one = worker(chk, binp, root, prop, 1, 0, 1, 6, 4, os.path.join(d, "%s-o%d.json" % (prop, i)), only=i)
                    runs += 1
                    if one is None:
                        ok = False
                        break
                    execs += one["stats"]["execs"]
                if whole is not None and execs != whole["stats"]["execs"]:
                    print("determinism: %s: cases executed alone run %d executions, %d together" % (prop, execs, whole["stats"]["execs"]))
                    ok = False
            print("determinism: %s: %d processes, %d cases each, digest %s" % (prop, runs, n, "stable" if ok else "UNSTABLE"))
    finally:
        shutil.rmtree(d, ignore_errors=True)
    return ok


# (name, property, file, regex, replacement): applied to the scratch copy only
BREAKAGES = [
    ("jsonschema-walkObject-no-sort", "C03", "internal/jsonschema/generator.go",
     [r"sort\.Slice\(fields, func\(i, j int\) bool \{\n\t\treturn fields\[i\]\.Name < fields\[j\]\.Name\n\t\}\)", r"\tsort\.Strings\(names\)\n\n\tfields := make"],
     ["_ = sort.Strings", "\tfields := make"]),
    ("consolidate-unsorted", "C03", "internal/ast/schema.go", r"\tsort\.Strings\(packages\)\n", "\tpackages = packages[:0]\n\tfor pkg := range byPackage {\n\t\tpackages = append(packages, pkg)\n\t}\n\tsort.Strings(packages[:0])\n"),
    ("orderedmap-iterate-records", "C19", "internal/orderedmap/map.go",
     r"func \(orderedMap \*Map\[K, V\]\) Iterate\(callback func\(key K, value V\)\) \{\n\tfor _, key := range orderedMap\.order \{\n\t\tcallback\(key, orderedMap\.records\[key\]\)\n\t\}",
     "func (orderedMap *Map[K, V]) Iterate(callback func(key K, value V)) {\n\tfor key, value := range orderedMap.records {\n\t\tcallback(key, value)\n\t}"),
    ("orderedmap-remove-keeps-order", "C19", "internal/orderedmap/map.go", r"\torderedMap\.order = newOrder\n", "\t_ = newOrder\n"),
    ("process-no-deepcopy", "C07", "internal/ast/compiler/compiler.go", r"processedSchemas := schemas\.DeepCopy\(\)",
     "processedSchemas := []*ast.Schema(append(ast.Schemas{}, schemas...))"),
    ("merge-overwrites", "C07", "internal/ast/schema.go", r"\t\tif !object\.Equal\(remoteObject\) \{\n\t\t\terr = [^\n]*\n\t\t\}",
     "\t\tif !object.Equal(remoteObject) {\n\t\t\tschema.AddObject(remoteObject)\n\t\t}"),
    ("jsonschema-no-seen-guard", "C04", "internal/jsonschema/generator.go",
     r"\tif _, found := g\.seen\[definitionName\]; found \{\n\t\treturn nil\n\t\}\n", ""),
    ("rename-object-skips-refs", "C05", "internal/ast/compiler/rename_object.go", r"\t\tOnRef:         pass\.processRef,\n", ""),
    ("structfield-deepcopy-drops-comments", "C18", "internal/ast/types.go",
     r"\tnewT\.Comments = append\(newT\.Comments, structField\.Comments\.\.\.\)\n", ""),
    ("option-rules-ignore-selector", "C17", "internal/veneers/rewrite/rewrite.go", r"if !rule\.Selector\(b, opt\) \{", "if false {"),
    ("omit-fields-case-sensitive", "C15", "internal/ast/compiler/types.go",
     r"strings\.EqualFold\(field\.Name, ref\.Field\)", "field.Name == ref.Field"),
    ("go-chain-without-prefix-enum", "C06", "internal/jennies/golang/jennies.go", r"\t\t&compiler\.PrefixEnumValues\{\},\n", ""),
]


def run_sensitivity(chk, only=None):
    ok = True
    for name, prop, rel, pat, rep in BREAKAGES:
        if only and name not in only and prop not in only:
            continue

        def patch(repo_dir, rel=rel, pat=pat, rep=rep):
            p = os.path.join(repo_dir, rel)
            s = open(p).read()
            pats, reps = (pat, rep) if isinstance(pat, list) else ([pat], [rep])
            for one, by in zip(pats, reps):
                s, n = re.subn(one, lambda m, by=by: by, s, count=1)
                if n != 1:
                    raise SystemExit("selftest: breakage %s does not apply any more (pattern not found in %s)" % (name, rel))
            open(p, "w").write(s)

        t0 = time.time()
        root, binp = chk.build(extra_patch=patch, tag="-" + name)
        rundir = os.path.join(chk.SCRATCH, "selftest-sens-%d" % os.getpid())
        os.makedirs(rundir, exist_ok=True)
        try:
            cases, maxsec = chk.BUDGET[prop]["quick"]
            results, deaths = chk.run_workers(binp, root, prop, "quick", 1, cases, maxsec, min(16, os.cpu_count() or 4), {"watchdog": "30"}, rundir)
            known = {k["key"] for k in chk.load_known() if k.get("property") == prop}
            keys = set()
            for r in results:
                for v in r.get("violations") or []:
                    if v["key"] not in known:
                        keys.add(v["key"])
            caught = bool(keys)
            print("sensitivity: %-40s %s -> %s (%.0fs) %s" % (name, prop, "CAUGHT" if caught else "MISSED", time.time() - t0, sorted(keys)[:2]))
            ok = ok and caught
        finally:
            shutil.rmtree(rundir, ignore_errors=True)
            shutil.rmtree(root, ignore_errors=True)
    return ok


def main(chk, what, rest):
    if what == "equivalence":
        ok = run_equivalence(chk)
    elif what == "determinism":
        props = rest or ["C03", "C04", "C05", "C06", "C07", "C15", "C17", "C18", "C19"]
        ok = run_determinism(chk, props, {"C19": 2000, "C15": 60, "C17": 60})
    elif what == "sensitivity":
        ok = run_sensitivity(chk, rest)
    else:
        print("unknown selftest", what)
        sys.exit(2)
    print("selftest %s: %s" % (what, "ok" if ok else "FAILED"))
    sys.exit(0 if ok else 1)
