#!/usr/bin/env python3
"""Triage aid for C05: a dangling-reference key is (where it arises, kind of referrer). For the
defects already triaged as genuine and unrepaired (a pass or parser that drops or renames an
object without looking at what refers to it) every referrer kind is the same defect; this adopts
those keys and prints everything else for triage by hand.
usage: adopt_c05_kinds.py < check-output"""
import json, sys, os, re
VERIF = os.path.dirname(os.path.dirname(os.path.abspath(__file__)))
SAME_DEFECT = {
    "dangling|chain:java:RemoveIntersections|": "RemoveIntersections folds an alias into its target and drops the target, rewriting only references that are direct struct-field types",
    "dangling|chain:php:InlineObjectsWithTypes|": "InlineObjectsWithTypes removes the objects it inlines; what still refers to them by another route (entry point, mapping, constant reference, nested reference) dangles",
    "dangling|pass:unspec|": "unspec removes `metadata` and renames `spec` without rewriting what refers to them",
    "dangling|parse:openapi|mapping": "the OpenAPI parser copies discriminator.mapping values verbatim (pinned by a golden file)",
}
p = os.path.join(VERIF, "known_findings.json")
d = json.load(open(p))
have = {(f["property"], f["key"]) for f in d["findings"]}
n = 0
for line in sys.stdin:
    m = re.match(r"VIOLATION property=C05 replay=(\S+)", line)
    if not m:
        continue
    rf = json.load(open(m.group(1)))
    k = rf["key"]
    if ("C05", k) in have:
        continue
    note = next((v for pre, v in SAME_DEFECT.items() if k.startswith(pre)), None)
    if note is None:
        print("NEW (triage by hand):", k, "|", rf["what"][:300])
        continue
    d["findings"].append({"property": "C05", "key": k, "replay": os.path.relpath(m.group(1), VERIF),
                          "what": rf["what"][:400] + " [" + note + "; not repaired]"})
    have.add(("C05", k))
    n += 1
json.dump(d, open(p, "w"), indent=1)
print("adopted", n)
