#!/usr/bin/env python3
"""Confirms a seeded change and runs the corresponding check against it.

usage: eval_seeded.py <dir with patch.diff, meta.json, demo/> [--tier quick] [--seed N] [--skip-confirm]

1. in a scratch worktree of /repo's HEAD: the patch applies, `go build ./...` and the existing
   suite pass with it, the demonstration fails with it and passes without it;
2. the patch is applied to /repo (git apply), the property's check is run, the patch is undone
   (git checkout -- .) whatever happens;
3. the result is recorded in /verif/seeded/<id>/ (patch.diff, demo/, meta.json).
"""
import json, os, shutil, subprocess, sys, time

VERIF = os.path.dirname(os.path.dirname(os.path.abspath(__file__)))
REPO = "/repo"
ENV = dict(os.environ, GOFLAGS="-mod=mod", GOPROXY="off", GOSUMDB="off", GOTOOLCHAIN="local")


def sh(cmd, cwd=None, timeout=3600):
    r = subprocess.run(cmd, cwd=cwd, env=ENV, shell=isinstance(cmd, str), stdout=subprocess.PIPE, stderr=subprocess.STDOUT, text=True, timeout=timeout)
    return r.returncode, r.stdout


def copy_demo(src, wt):
    """Demo files are stored under demo/ with their path relative to the repository root."""
    copied = []
    for dp, _, fns in os.walk(src):
        for fn in fns:
            if fn.lower().startswith("readme"):
                continue
            rel = os.path.relpath(os.path.join(dp, fn), src)
            if "__" in fn and os.path.dirname(rel) == "":
                rel = fn.replace("__", "/")  # path encoded in the file name
            elif os.path.dirname(rel) == "" and fn.endswith("_test.go") and open(os.path.join(dp, fn)).read().lstrip().startswith("package cog"):
                pass  # a test of the root package
            elif os.path.dirname(rel) == "":
                continue  # no destination known: the demo command copies it itself
            dst = os.path.join(wt, rel)
            os.makedirs(os.path.dirname(dst), exist_ok=True)
            shutil.copy(os.path.join(dp, fn), dst)
            copied.append(dst)
    return copied


def main():
    d = os.path.abspath(sys.argv[1])
    tier = "quick"
    seed = "1"
    skip = "--skip-confirm" in sys.argv
    if "--tier" in sys.argv:
        tier = sys.argv[sys.argv.index("--tier") + 1]
    if "--seed" in sys.argv:
        seed = sys.argv[sys.argv.index("--seed") + 1]
    meta = json.load(open(os.path.join(d, "meta.json")))
    prop = meta["property"]
    sid = os.path.basename(d)
    patch = os.path.join(d, "patch.diff")
    ran = []
    confirm = {}
    if not skip:
        wt = "/tmp/evalwt-%s" % sid
        sh(["git", "-C", REPO, "worktree", "remove", "--force", wt])
        rc, out = sh(["git", "-C", REPO, "worktree", "add", "-q", "--detach", wt, "HEAD"])
        try:
            demo_cmd = meta.get("demo_cmd", "")
            copied = copy_demo(os.path.join(d, "demo"), wt)
            rc0, out0 = sh(demo_cmd, cwd=wt, timeout=1200)
            confirm["demo_passes_without_change"] = rc0 == 0
            sh("git clean -fdq", cwd=wt)
            copied = copy_demo(os.path.join(d, "demo"), wt)
            rc, out = sh(["git", "apply", patch], cwd=wt)
            confirm["patch_applies"] = rc == 0
            rcb, outb = sh("go build ./...", cwd=wt)
            confirm["builds"] = rcb == 0
            rc1, out1 = sh(demo_cmd, cwd=wt, timeout=1200)
            confirm["demo_fails_with_change"] = rc1 != 0
            sh("git clean -fdq", cwd=wt)
            rct, outt = sh("go test -vet=off -count=1 ./...", cwd=wt, timeout=1800)
            confirm["existing_suite_passes"] = rct == 0
            ran += ["git worktree add %s HEAD" % wt, demo_cmd + " (before: rc=%d)" % rc0, "git apply patch.diff", "go build ./...",
                    demo_cmd + " (after: rc=%d)" % rc1, "go test -vet=off -count=1 ./... (rc=%d)" % rct]
            if not all(confirm.values()):
                print("NOT CONFIRMED", sid, confirm)
                print((out0 if rc0 != 0 else "")[-1500:], (outb if rcb else "")[-1500:], (outt if rct else "")[-1500:])
        finally:
            sh(["git", "-C", REPO, "worktree", "remove", "--force", wt])
    # run the check against the change
    rc, out = sh(["git", "-C", REPO, "status", "--porcelain"])
    if out.strip():
        print("refusing: /repo has local changes")
        sys.exit(2)
    rc, out = sh(["git", "-C", REPO, "apply", patch])
    if rc != 0:
        print("patch does not apply to /repo:", out)
        sys.exit(2)
    t0 = time.time()
    try:
        rc, out = sh([os.path.join(VERIF, "check"), prop, "--tier", tier, "--seed", seed], cwd=VERIF, timeout=7200)
    finally:
        sh(["git", "-C", REPO, "checkout", "--", "."])
    viol = [l for l in out.splitlines() if l.startswith("VIOLATION")]
    detail = [l for l in out.splitlines() if l.startswith("check:   ")]
    detected = rc == 1 and bool(viol)
    ran.append("git -C /repo apply patch.diff; ./check %s --tier %s --seed %s (rc=%d, %.0fs); git -C /repo checkout -- ." % (prop, tier, seed, rc, time.time() - t0))
    dst = os.path.join(VERIF, "seeded", sid)
    os.makedirs(dst, exist_ok=True)
    if os.path.abspath(d) != os.path.abspath(dst):
        shutil.copy(patch, os.path.join(dst, "patch.diff"))
    if os.path.abspath(d) != os.path.abspath(dst) and os.path.isdir(os.path.join(d, "demo")):
        shutil.rmtree(os.path.join(dst, "demo"), ignore_errors=True)
        shutil.copytree(os.path.join(d, "demo"), os.path.join(dst, "demo"))
    prev = {}
    if os.path.exists(os.path.join(dst, "meta.json")):
        prev = json.load(open(os.path.join(dst, "meta.json")))
    if prev.get("note"):
        meta["note"] = prev["note"]
    meta.update({"confirmed": confirm or prev.get("confirmed"), "what_was_run": (prev.get("what_was_run") or []) + ran,
                 "detected_by_check": detected, "check_exit": rc, "violation_keys": [l[9:200] for l in detail][:6]})
    json.dump(meta, open(os.path.join(dst, "meta.json"), "w"), indent=1)
    # replay files written for a seeded change are not findings on the unchanged tree
    for l in viol:
        p = l.split("replay=")[-1].strip()
        if os.path.exists(p):
            shutil.copy(p, os.path.join(dst, "replay-" + os.path.basename(p)))
            os.remove(p)
    print("%s: confirmed=%s detected=%s rc=%d %s" % (sid, all(confirm.values()) if confirm else "skipped", detected, rc, [l[9:160] for l in detail][:3]))


if __name__ == "__main__":
    main()
