#!/usr/bin/env python3
"""Triage aid: after a human has judged every VIOLATION of a check run to be a genuine
defect that is not going to be repaired, record them in known_findings.json.
usage: adopt_findings.py <property> <note> < check-output"""
import json, sys, os, re
VERIF = os.path.dirname(os.path.dirname(os.path.abspath(__file__)))
prop, note = sys.argv[1], sys.argv[2]
p = os.path.join(VERIF, "known_findings.json")
d = json.load(open(p))
have = {(f["property"], f["key"]) for f in d["findings"]}
n = 0
for line in sys.stdin:
    m = re.match(r"VIOLATION property=(\S+) replay=(\S+)", line)
    if not m or m.group(1) != prop:
        continue
    rf = json.load(open(m.group(2)))
    if (prop, rf["key"]) in have:
        continue
    rel = os.path.relpath(m.group(2), VERIF)
    d["findings"].append({"property": prop, "key": rf["key"], "replay": rel, "what": rf["what"][:400] + " " + note})
    have.add((prop, rf["key"]))
    n += 1
json.dump(d, open(p, "w"), indent=1)
print("adopted", n)
