#!/usr/bin/env python3
"""One-off triage aid used when the C06 cause keys were refined with the type-kind transition
(`broken-by:P` -> `broken-by:P[from>to]`): a violation whose unrefined key had already been
triaged as a genuine, unrepaired gap of the built-in chains is recorded under its refined key;
anything else is printed for triage by hand.
usage: rekey_c06.py <old known_findings.json> < check-output"""
import json, sys, os, re
VERIF = os.path.dirname(os.path.dirname(os.path.abspath(__file__)))
old = {f["key"]: f for f in json.load(open(sys.argv[1]))["findings"] if f["property"] == "C06"}
p = os.path.join(VERIF, "known_findings.json")
d = json.load(open(p))
have = {(f["property"], f["key"]) for f in d["findings"]}
n = 0
for line in sys.stdin:
    m = re.match(r"VIOLATION property=C06 replay=(\S+)", line)
    if not m:
        continue
    rf = json.load(open(m.group(1)))
    k = rf["key"]
    if ("C06", k) in have:
        continue
    coarse = re.sub(r"\[[^\]]*\]$", "", k)
    if coarse not in old:
        print("NEW (triage by hand):", k, "|", rf["what"][:300])
        continue
    note = old[coarse]["what"]
    note = note[note.find("["):] if "[" in note else ""
    d["findings"].append({"property": "C06", "key": k, "replay": os.path.relpath(m.group(1), VERIF),
                          "what": rf["what"][:400] + " " + note[-300:]})
    have.add(("C06", k))
    n += 1
json.dump(d, open(p, "w"), indent=1)
print("adopted", n)
