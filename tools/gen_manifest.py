#!/usr/bin/env python3
"""Regenerates /verif/MANIFEST.json from the table below (single source of truth)."""
import json, os

VERIF = os.path.dirname(os.path.dirname(os.path.abspath(__file__)))

CLAIMED = {
    "C03": {
        "technique": "deterministic simulation: seeded schedule search over every map-range site (canonical vs reversed/shuffled/rotated/subset/pinned-language-order schedules) on corpus and generated pipelines; outputs and inspect IR compared; ddmin to the responsible range statement; replay",
        "text": "Every `range` over a map in cog runs under a scheduler the harness controls, so an order-dependent site that is reached with >=2 keys is exposed by the first canonical/reversed pair instead of with luck. Pipelines (1-3 inputs in the three formats, 1-7 languages, all output toggles) are sampled, not enumerated.",
        "note": "The map ranges of codejen, kin-openapi/openapi3 and santhosh-tekuri/jsonschema/v5 are behind the seam too (139 sites, rewritten in writable copies of the module directories); map sites inside the standard library, cue, yaml.v3 and expr keep the runtime's order; a residual-nondeterminism self-check (same schedule twice, observations compared) polices that. Error texts are not compared, only ok/fail.",
        "design_ref": "DESIGN.md §5 C03",
    },
    "C04": {
        "technique": "deterministic simulation with fault injection: seeded fault plans (torn/flipped/zeroed/duplicated bytes, stale/empty/missing files, directories for files, failing os calls, record-level corruption, HTTP status/body faults, cancellation, stream errors and short reads) drawn after a fault-free dry run and injected into simulated runs of every public entry point, under seeded map-order schedules, a tick clock (deterministic hang verdict) and a call-depth budget; fault/workload minimisation and replay; worker death re-executed in isolation",
        "text": "Seeded search over fault sequences and generated inputs/configurations; the oracle is only 'the call returns'. The statement quantifies over all byte sequences: this family reaches that set only through corruptions of well-formed documents and unusual-but-valid generated shapes, a weak decision procedure for deep structural cases (DESIGN.md §5 C04).",
        "note": "Crashes are keyed by class + innermost cog function (package for runaway recursion and hangs); 28 crash sites that exist on the unchanged tree are listed in known_findings.json and 50 were repaired. A new crash in a function that already has a listed crash of the same class is masked. Hangs inside uninstrumented libraries are caught by a wall-clock/memory watchdog and confirmed in a fresh process.",
        "design_ref": "DESIGN.md §5 C04",
    },
    "C05": {
        "technique": "deterministic simulation: monitored histories through the real pipeline stages (parser output, every language chain incl. derived builders, sequences of name-changing passes applied step by step, allowed_objects filtering) under seeded map-order schedules, with an independent reflective reference walker and reachability model as oracle; shrinking and replay",
        "text": "Seeded histories of the real pass schedule, checked after every step by a reference-closure invariant computed by a walker that shares no code with compiler.Visitor; allowed_objects is compared with an independent least-fixpoint model. Sampled, not enumerated.",
        "note": "Only IRs that are clean before a step are judged after it. References into packages that were not loaded are outside the claim. After allowed_objects filtering the entry point is not required to resolve (the statement's 'exactly' forces its removal when not listed). Four genuine defects are listed in known_findings.json.",
        "design_ref": "DESIGN.md §5 C05",
    },
    "C06": {
        "technique": "deterministic simulation: invariant monitors on the output of every language's real pass chain (ContextForLanguage) for generated nested inputs under seeded map-order schedules; the statement's predicates evaluated on every type position; violations attributed to the pass that broke them by replaying the chain step by step; shrinking and replay",
        "text": "Chain post-conditions are checked on sampled nested inputs in two generator modes (plain: flat unions, no allOf; nested: everything). Each violation is keyed by (mode, language, predicate, cause) where cause is broken-by:<pass>, created-violating-by:<pass> or never-established, so that a chain losing the pass that establishes a predicate shows up as a new key even though many gaps of the chains are already known.",
        "note": "The 79 known findings are genuine normal-form gaps of the current chains (a later pass replaces a type and drops nullability, nested unions survive in generated structs, ...). A regression that coincides exactly with a listed (mode, language, predicate, cause with kind transition) is masked. Hint payloads are not type positions.",
        "design_ref": "DESIGN.md §5 C06",
    },
    "C07": {
        "technique": "deterministic simulation: the language loop's order is pinned by the scheduler to shuffled permutations (alone vs together), input arrival order is permuted, unrelated/same-package inputs are added, and interference monitors hold the schemas shared by all language chains and compare them with a snapshot after every chain; replay",
        "text": "Sampling of pipelines under controlled language order and input order, with equality oracles (files per language, per package) and a shared-state interference monitor at the seam Pipeline.Run already has (probe compiler pass + progress reporter).",
        "note": "Clause (c) compares only files whose path names one of the original packages (aggregate index files are not attributed). Clause (d) accepts any failing run. Snapshots are JSON renderings of the IR (every exported field, ordered-map order included).",
        "design_ref": "DESIGN.md §5 C07",
    },
    "C15": {
        "technique": "deterministic simulation: seeded histories of configurable passes (built through the real YAML loader, applied by the real Passes.Process under seeded map-order schedules) checked step by step against executable reference models on a plain-data mirror of the IR (effect, frame, absent-target, input-not-modified); history shrinking and replay",
        "text": "Reference-model checking of sampled pass histories: 19 models written from the documentation and the statement's matching rules, independent of cog's visitor and matching helpers. Sampled, not enumerated.",
        "note": "Situations the documentation leaves open are skipped and counted in evidence (an object of the new name already exists, several objects match case-insensitively, duplicate_object with a case-variant source, two default keys on one field). For name prefixing, enum member names and hint payloads are not judged. Transformation trail strings are ignored on targeted objects and must be unchanged elsewhere.",
        "design_ref": "DESIGN.md §5 C15",
    },
    "C17": {
        "technique": "deterministic simulation: seeded histories of builder/option rules (veneer files loaded by the real VeneersLoader, applied by the real Rewriter.ApplyTo under seeded map-order schedules) with invariants after every rule: path and argument well-typedness against the schemas, frame on unselected builders/options (which is where aliasing between sequential rules shows), rule contracts; history shrinking and replay",
        "text": "Invariant checking over sampled rule histories starting from builders derived by the real generator; selectors are modelled from their documented matching rules. Sampled, not enumerated.",
        "note": "Paths composed through a TypeHint over `any` are checked for existence only. Default values are ignored when comparing path/argument types. merge_into whose source does not build the type under under_path is keyed as misconfigured and listed as a known finding, as is struct_fields_as_* after disjunction_as_options. Builders without options are outside the frame (the rewriter dismisses them whatever the rule).",
        "design_ref": "DESIGN.md §5 C17",
    },
    "C18": {
        "technique": "deterministic simulation: a monitor on every DeepCopy event of simulated pipeline runs (copy seam inserted by the instrumenter) plus node-by-node copying of fixture, generated and synthetic IR graphs (values of every ast type drawn field by field from the seed) and seeded duplicate_object rules judged against their source; reflective equality and disjointness-of-mutable-locations oracles; replay",
        "text": "Every outermost DeepCopy call of real pipeline runs (with builders, veneers, converters) and every DeepCopy method reachable in 47 fixture graphs, in generated contexts and in synthetic roots (Type, Object, Schema, Schemas, Builder, Option, Assignment, BuilderFactory, Constructor, Argument) is judged: copy equals receiver field by field; no slice array, map or pointer target is reachable from both through declared fields.",
        "note": "Sharing that is only reachable through an `any` payload (Default, constant values, constraint args, hint values) is counted in evidence as unexploited_sharing and not raised: no transformation writes those in place (DESIGN.md §5 C18). nil and empty collections are treated alike.",
        "design_ref": "DESIGN.md §5 C18",
    },
    "C19": {
        "technique": "deterministic simulation: seeded operation histories (incl. re-entrant callbacks that remove keys at seeded visits with a visit oracle, FromMap under a scheduled map order) against a slice-of-pairs reference model, checked after every operation, shrunk and replayed",
        "text": "Seeded sampling of operation histories over the real orderedmap.Map with a reference model as oracle after every step. Sampling, not enumeration: a clean batch is evidence that no short history breaks the map, not a proof.",
        "note": "Trusts the reference model (a slice of pairs, 30 lines) and the instrumented copy being behaviour-equivalent to /repo (selftest equivalence). Equal() and out-of-range At() are exercised but not judged: the statement does not cover them.",
        "design_ref": "DESIGN.md §5 C19",
    },
}

NA = {
    "C01": "observable is the behaviour of emitted Go code compiled and run by an external toolchain plus reference validators; pure function of (schema, document) with no schedule, clock, fault or shared-state dimension for a simulator to vary (DESIGN.md §6)",
    "C02": "oracle is go build / py_compile / javac on emitted files: code outside the simulator; pure in (input, options) (DESIGN.md §6)",
    "C08": "behaviour of emitted Go Validate()/strict decoders executed outside the simulator; its 'fault' is a document mutation, i.e. an input (DESIGN.md §6)",
    "C09": "call sequences on emitted Go/Python builder objects executed outside the simulator; no environment fault or interleaving involved (DESIGN.md §6)",
    "C10": "runs emitted code in two language runtimes; pure (DESIGN.md §6)",
    "C11": "runs emitted Python and Go code and compares wire formats; pure (DESIGN.md §6)",
    "C12": "needs external JSON Schema/OpenAPI loaders plus emitted Go; pure (DESIGN.md §6)",
    "C13": "behaviour of emitted Go Equals; pure (DESIGN.md §6)",
    "C14": "two-stage compile-and-run of emitted Go converters; pure (DESIGN.md §6)",
    "C16": "BuilderGenerator.FromAST is a pure function of the schemas: no map site, I/O, clock or shared state in the anchored code, nothing for a scheduler or fault injector to vary (DESIGN.md §6)",
    "C20": "strict decoding and schema/struct agreement are pure functions of the YAML bytes and of committed files; the only map site in the anchored code copies map to map (DESIGN.md §6)",
}

# properties whose checks are still being built: not claimed yet
PENDING = {
}


def main():
    checks = []
    for pid in sorted(CLAIMED):
        c = CLAIMED[pid]
        checks.append({
            "property_id": pid,
            "quick_cmd": "./check %s --tier quick" % pid,
            "thorough_cmd": "./check %s --tier thorough" % pid,
            "evidence_file": "/verif/evidence/%s.json" % pid,
            "replay_cmd_template": "./check replay {path}",
            "engine": "cogsim",
            "level_claimed": {"category": "exploration", "text": c["text"], "design_ref": c["design_ref"]},
            "level_note": c["note"],
            "technique": c["technique"],
        })
    na = [{"property_id": k, "reason": v} for k, v in sorted({**NA, **PENDING}.items())]
    m = {
        "version": 1,
        "setup_cmd": "./setup.sh",
        "hooks": {
            "guard": "verif",
            "enable": "no hook lives in /repo: every check rsyncs /repo's working tree to a scratch directory and rewrites that copy with /verif/sim/instrument (go/ast: map-range seam, tick clock, copy monitor, file-call twins) before building it with /verif/sim/simrt and /verif/sim/harness",
            "baseline_off_cmd": "cd /repo && GOFLAGS=-mod=mod go test -vet=off -count=1 ./...",
            "source_commits": [],
            "add_only": True,
        },
        "engines": [{
            "name": "cogsim",
            "path": "/verif/sim",
            "serves_properties": sorted(CLAIMED),
            "kind_free_text": "deterministic simulator for a single-goroutine program: seeded scheduler for every map iteration, tick clock, simulated disk/HTTP/cancellation faults, DeepCopy monitors, seeded histories with reference models; driver /verif/check",
        }],
        "checks": checks,
        "not_applicable": na,
        "notes": "fix commits in /repo are listed in known_findings.json ('fixed' entries). See DESIGN.md.",
    }
    with open(os.path.join(VERIF, "MANIFEST.json"), "w") as f:
        json.dump(m, f, indent=1)
        f.write("\n")


if __name__ == "__main__":
    main()
