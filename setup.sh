#!/bin/sh
# Builds the instrumenter from files on disk only (module cache, no network).
set -e
cd "$(dirname "$0")"
export GOFLAGS=-mod=mod GOPROXY=off GOSUMDB=off GOTOOLCHAIN=local
mkdir -p bin
(cd sim/instrument && go build -o ../../bin/instrument .)
echo "setup: ok"
