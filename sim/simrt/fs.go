package simrt

import (
	"fmt"
	"io/fs"
	"os"
	"path/filepath"
	"syscall"
)

// FSPlan holds the call-level file faults of a run. A fault fires at the n-th
// call (1-based) of the given operation on a path with the given suffix.
type FSPlan struct {
	Faults []FSFault
	// Calls records every file call of the run: "op path" -> count. It is how a
	// dry run tells the planner which calls exist.
	Calls   []string
	counts  map[string]int
	Fired   []string
}

type FSFault struct {
	Op     string // open, readfile, readdir, stat, walkdir, glob, getwd
	Suffix string // path suffix the call must have ("" = any)
	Nth    int    // fire at the n-th matching call (1-based)
	Errno  string // ENOENT, EACCES, EIO, EMFILE, EISDIR, ENOTDIR
}

func errnoOf(name string) error {
	switch name {
	case "ENOENT":
		return syscall.ENOENT
	case "EACCES":
		return syscall.EACCES
	case "EIO":
		return syscall.EIO
	case "EMFILE":
		return syscall.EMFILE
	case "EISDIR":
		return syscall.EISDIR
	case "ENOTDIR":
		return syscall.ENOTDIR
	}
	return syscall.EIO
}

func hasSuffix(s, suf string) bool {
	return len(s) >= len(suf) && s[len(s)-len(suf):] == suf
}

// fault records the call and returns the injected error, if any.
func fault(op, path string) error {
	r := cur
	if r == nil {
		return nil
	}
	r.logStr("fs:" + op + ":" + filepath.Base(path))
	p := r.FS
	if p == nil {
		return nil
	}
	p.Calls = append(p.Calls, op+" "+path)
	if p.counts == nil {
		p.counts = make(map[string]int)
	}
	for i, f := range p.Faults {
		if f.Op != op || !hasSuffix(path, f.Suffix) {
			continue
		}
		key := fmt.Sprintf("%d", i)
		p.counts[key]++
		if p.counts[key] == f.Nth {
			p.Fired = append(p.Fired, fmt.Sprintf("%s %s %s", op, f.Suffix, f.Errno))
			return &fs.PathError{Op: op, Path: path, Err: errnoOf(f.Errno)}
		}
	}
	return nil
}

func OsOpen(name string) (*os.File, error) {
	if err := fault("open", name); err != nil {
		return nil, err
	}
	return os.Open(name)
}

func OsReadFile(name string) ([]byte, error) {
	if err := fault("readfile", name); err != nil {
		return nil, err
	}
	return os.ReadFile(name)
}

func OsReadDir(name string) ([]os.DirEntry, error) {
	if err := fault("readdir", name); err != nil {
		return nil, err
	}
	return os.ReadDir(name)
}

func OsStat(name string) (os.FileInfo, error) {
	if err := fault("stat", name); err != nil {
		return nil, err
	}
	return os.Stat(name)
}

func OsGetwd() (string, error) {
	if err := fault("getwd", ""); err != nil {
		return "", err
	}
	return os.Getwd()
}

func FilepathGlob(pattern string) ([]string, error) {
	// filepath.Glob ignores I/O errors, so no fault is ever injected here: the
	// call is only recorded.
	_ = fault("glob", pattern)
	return filepath.Glob(pattern)
}

// FilepathWalkDir injects the fault the way the real WalkDir reports a failed
// Lstat of the root: by calling fn with the error.
func FilepathWalkDir(root string, fn fs.WalkDirFunc) error {
	if err := fault("walkdir", root); err != nil {
		err = fn(root, nil, err)
		if err == fs.SkipDir || err == fs.SkipAll {
			return nil
		}
		return err
	}
	return filepath.WalkDir(root, fn)
}
