// Package simrt is the runtime of the cog simulator. It is linked into an
// instrumented scratch copy of grafana/cog (never into /repo itself) and owns
// every source of nondeterminism the instrumenter puts behind a seam:
//
//   - the iteration order of every `range` over a map (MapSeq / Iter),
//   - simulated time: a tick counter and a call-depth counter (Tick / Enter / Leave),
//   - call-level file-system faults (OsOpen, OsReadFile, ... in fs.go),
//   - copy events (CopyEnter / CopyLeave) forwarded to a monitor the harness installs.
//
// One *Run is one simulated execution. Everything a Run decides is a pure
// function of (Schedule, site, occurrence): there is no shared random stream,
// so removing one perturbation does not shift any other choice.
//
// The package has no dependency besides the standard library and keeps no
// state besides `cur`, the run in progress (cog is single-goroutine).
package simrt

import (
	"sync/atomic"
	"fmt"
	"iter"
	"os"
	"reflect"
	"runtime"
	"sort"
)

// Policy says how one map-range event is ordered.
type Policy uint8

const (
	Native    Policy = iota // leave the Go runtime's order (pass-through)
	Canonical               // keys sorted by their printed form
	Reverse                 // canonical order reversed
	Shuffle                 // seeded permutation of the canonical order
	Rotate                  // canonical order rotated by a seeded offset (what go1.23 realises for <=8 entries)
)

func (p Policy) String() string {
	switch p {
	case Native:
		return "native"
	case Canonical:
		return "canonical"
	case Reverse:
		return "reverse"
	case Shuffle:
		return "shuffle"
	case Rotate:
		return "rotate"
	}
	return "?"
}

func ParsePolicy(s string) Policy {
	switch s {
	case "native":
		return Native
	case "canonical":
		return Canonical
	case "reverse":
		return Reverse
	case "shuffle":
		return Shuffle
	case "rotate":
		return Rotate
	}
	panic("simrt: unknown policy " + s)
}

// Schedule is a total function (site, occurrence) -> order.
type Schedule struct {
	Default Policy
	Seed    uint64
	// Sites overrides the policy of individual sites.
	Sites map[string]Policy
	// SubsetMod > 0: a site without an explicit entry takes SubsetPolicy when
	// hash(Seed, site) % SubsetMod == 0 and Default otherwise (swarm mode d).
	SubsetMod    uint64
	SubsetPolicy Policy
	// KeyOrder pins every event whose keys all occur in KeyOrder to that
	// order (used to force the order of the language loop).
	KeyOrder []string
}

func (s *Schedule) policy(site string) Policy {
	if p, ok := s.Sites[site]; ok {
		return p
	}
	if s.SubsetMod > 0 {
		if Hash64(s.Seed, site)%s.SubsetMod == 0 {
			return s.SubsetPolicy
		}
	}
	return s.Default
}

// SiteStat is what a run saw at one range-over-map site.
type SiteStat struct {
	Events   uint64 // times the loop was entered
	Multi    uint64 // ... with >= 2 keys
	NonCanon uint64 // ... and iterated in a non-canonical order
	MaxKeys  int
}

// Run is the state of one simulated execution.
type Run struct {
	Sched    Schedule
	MaxTicks uint64
	MaxDepth int

	Ticks    uint64
	Depth    int
	PeakDepth int
	Sites    map[string]*SiteStat
	LogHash  uint64 // rolling hash of every >=2-key map event and every I/O call
	NEvents  uint64
	Unsched  map[string]uint64 // sites whose keys could not be ordered canonically

	FS *FSPlan // call-level file faults; nil = none

	// Aborted is set when the tick or depth budget is exceeded. From then on
	// every Enter/Tick panics again, so that a run cannot carry on after a
	// library (text/template recovers panics of the functions it calls) has
	// swallowed the first panic.
	Aborted error

	// Trace, when non-nil, receives one line per scheduled event (debugging / replay diff).
	Trace func(string)
}

var cur *Run

// SIMRT_POLICY puts the seam in a fixed mode for a whole process (used by the
// equivalence self-test, which runs the repository's own test suite on the
// instrumented copy): canonical | reverse | shuffle. Unset = pass-through.
func init() {
	if p := os.Getenv("SIMRT_POLICY"); p != "" {
		r := &Run{Sched: Schedule{Default: ParsePolicy(p), Seed: 7}, MaxTicks: 1 << 62, MaxDepth: 1 << 30}
		Begin(r)
	}
}

// Begin makes r the run in progress. End must be called (defer) when it is over.
func Begin(r *Run) {
	if r.Sites == nil {
		r.Sites = make(map[string]*SiteStat)
	}
	if r.Unsched == nil {
		r.Unsched = make(map[string]uint64)
	}
	if r.MaxTicks == 0 {
		r.MaxTicks = 200_000_000
	}
	if r.MaxDepth == 0 {
		r.MaxDepth = 20_000
	}
	r.LogHash = 1469598103934665603
	cur = r
}

func End() { cur = nil }

// Current returns the run in progress (nil outside a run).
func Current() *Run { return cur }

// Suspend runs f with the simulator switched off (harness bookkeeping such as
// cloning or hashing the IR must not consume ticks or perturb the event log).
func Suspend(f func()) {
	saved := cur
	cur = nil
	defer func() { cur = saved }()
	f()
}

// ---------------------------------------------------------------- time

// Hang is the panic value raised when a run exceeds its tick budget.
type Hang struct {
	Ticks uint64
	Func  string // the function that was executing when the budget ran out
}

func (h Hang) Error() string {
	return fmt.Sprintf("simrt: tick budget exceeded (%d ticks) in %s", h.Ticks, h.Func)
}

// Overflow is the panic value raised when the call depth exceeds its budget.
type Overflow struct {
	Depth int
	Func  string // the function whose entry exceeded the budget
}

func (o Overflow) Error() string {
	return fmt.Sprintf("simrt: call depth exceeded (%d frames) in %s", o.Depth, o.Func)
}

// callerName names the code that ran out of budget, in a way that does not
// depend on where exactly the counter tripped.
//   - depth budget: the function that occurs most often among the innermost 64
//     frames (a member of the recursion cycle; ties go to the smallest name);
//   - tick budget: the outermost frame that belongs to a parser, pass, veneer or
//     jenny package, i.e. the stage that does not finish.
func callerName(overflow bool) string {
	pcs := make([]uintptr, 512)
	n := runtime.Callers(3, pcs)
	frames := runtime.CallersFrames(pcs[:n])
	var names []string
	for {
		fr, more := frames.Next()
		name := fr.Function
		if len(name) > 22 && name[:22] == "github.com/grafana/cog" && !contains(name, "/internal/zzverif") {
			names = append(names, name)
		}
		if !more {
			break
		}
	}
	if len(names) == 0 {
		return "?"
	}
	if overflow {
		top := names
		if len(top) > 64 {
			top = top[:64]
		}
		count := map[string]int{}
		for _, nm := range top {
			// the shared visitor is part of every recursion through a pass: the pass is the site
			if contains(nm, "compiler.(*Visitor).") || contains(nm, "compiler.Passes.") {
				continue
			}
			count[nm]++
		}
		best, bestN := "", 0
		for nm, c := range count {
			if c > bestN || (c == bestN && nm < best) {
				best, bestN = nm, c
			}
		}
		return best
	}
	stagePkgs := []string{"/jennies/", "/internal/simplecue.", "/internal/jsonschema.", "/internal/openapi.", "/internal/veneers/", "/internal/yaml.", "/internal/languages.", "/internal/ast/compiler."}
	for i := len(names) - 1; i >= 0; i-- {
		nm := names[i]
		if contains(nm, "compiler.Passes.") || contains(nm, "compiler.(*Visitor).") || contains(nm, "/jennies/common.") || contains(nm, "/jennies/template.") {
			continue
		}
		for _, p := range stagePkgs {
			if contains(nm, p) {
				return nm
			}
		}
	}
	return names[0]
}

func contains(s, sub string) bool {
	for i := 0; i+len(sub) <= len(s); i++ {
		if s[i:i+len(sub)] == sub {
			return true
		}
	}
	return false
}

// Tick advances simulated time by one unit. Inserted at every loop head.
func Tick() {
	r := cur
	if r == nil {
		return
	}
	if r.Aborted != nil {
		panic(r.Aborted)
	}
	r.Ticks++
	if r.Ticks&4095 == 0 {
		Progress.Add(4096)
	}
	if r.Ticks > r.MaxTicks {
		r.Aborted = Hang{r.Ticks, callerName(false)}
		panic(r.Aborted)
	}
}

// Progress counts simulated ticks process-wide (in steps of 4096): a wall-clock
// watchdog reads it to tell a slow machine (ticks keep coming, the tick budget will
// end the run) from a loop in code that has no ticks.
var Progress atomic.Uint64

// Enter / Leave bracket every instrumented function.
func Enter() {
	r := cur
	if r == nil {
		return
	}
	if r.Aborted != nil {
		panic(r.Aborted)
	}
	r.Ticks++
	if r.Ticks&4095 == 0 {
		Progress.Add(4096)
	}
	r.Depth++
	if r.Depth > r.PeakDepth {
		r.PeakDepth = r.Depth
	}
	if r.Depth > r.MaxDepth {
		r.Aborted = Overflow{r.Depth, callerName(true)}
		panic(r.Aborted)
	}
	if r.Ticks > r.MaxTicks {
		r.Aborted = Hang{r.Ticks, callerName(false)}
		panic(r.Aborted)
	}
}

func Leave() {
	if r := cur; r != nil && r.Aborted == nil {
		r.Depth--
	}
}

// ---------------------------------------------------------------- hashing

const (
	fnvOffset = 1469598103934665603
	fnvPrime  = 1099511628211
)

// Hash64 is FNV-1a over the seed bytes and the string, finished with a splitmix round.
func Hash64(seed uint64, s string) uint64 {
	h := uint64(fnvOffset)
	for i := 0; i < 8; i++ {
		h ^= (seed >> (8 * i)) & 0xff
		h *= fnvPrime
	}
	for i := 0; i < len(s); i++ {
		h ^= uint64(s[i])
		h *= fnvPrime
	}
	return Mix(h)
}

// Mix is the splitmix64 finaliser.
func Mix(z uint64) uint64 {
	z += 0x9e3779b97f4a7c15
	z = (z ^ (z >> 30)) * 0xbf58476d1ce4e5b9
	z = (z ^ (z >> 27)) * 0x94d049bb133111eb
	return z ^ (z >> 31)
}

func (r *Run) logStr(s string) {
	h := r.LogHash
	for i := 0; i < len(s); i++ {
		h ^= uint64(s[i])
		h *= fnvPrime
	}
	h ^= 0xff
	h *= fnvPrime
	r.LogHash = h
}

// Log mixes an arbitrary harness-level event into the run's log hash.
func Log(s string) {
	if r := cur; r != nil {
		r.logStr(s)
	}
}

// ---------------------------------------------------------------- map seam

type keyed[K any] struct {
	k K
	s string
}

func keyString[K any](k K) (string, bool) {
	switch v := any(k).(type) {
	case string:
		return v, true
	case int:
		return fmt.Sprintf("%020d", uint64(v)^(1<<63)), true
	case fmt.Stringer:
		return v.String(), true
	}
	rv := reflect.ValueOf(k)
	switch rv.Kind() {
	case reflect.String:
		return rv.String(), true
	case reflect.Int, reflect.Int8, reflect.Int16, reflect.Int32, reflect.Int64:
		return fmt.Sprintf("%020d", uint64(rv.Int())^(1<<63)), true
	case reflect.Uint, reflect.Uint8, reflect.Uint16, reflect.Uint32, reflect.Uint64:
		return fmt.Sprintf("%020d", rv.Uint()), true
	case reflect.Bool:
		return fmt.Sprint(rv.Bool()), true
	case reflect.Struct:
		// structs of plain data print stably; structs holding pointers do not.
		if plainData(rv.Type()) {
			return fmt.Sprintf("%#v", k), true
		}
	}
	return "", false
}

func plainData(t reflect.Type) bool {
	switch t.Kind() {
	case reflect.String, reflect.Bool,
		reflect.Int, reflect.Int8, reflect.Int16, reflect.Int32, reflect.Int64,
		reflect.Uint, reflect.Uint8, reflect.Uint16, reflect.Uint32, reflect.Uint64,
		reflect.Float32, reflect.Float64:
		return true
	case reflect.Struct:
		for i := 0; i < t.NumField(); i++ {
			if !plainData(t.Field(i).Type) {
				return false
			}
		}
		return true
	case reflect.Array:
		return plainData(t.Elem())
	}
	return false
}

// order returns the keys of m in the order the schedule dictates, or nil when
// the event is to be left to the Go runtime.
func order[K comparable, V any](m map[K]V, site string) []K {
	r := cur
	if r == nil {
		return nil
	}
	st := r.Sites[site]
	if st == nil {
		st = &SiteStat{}
		r.Sites[site] = st
	}
	st.Events++
	n := len(m)
	if n > st.MaxKeys {
		st.MaxKeys = n
	}
	if n < 2 {
		return nil
	}
	st.Multi++
	pol := r.Sched.policy(site)
	if pol == Native && len(r.Sched.KeyOrder) == 0 {
		return nil
	}
	ks := make([]keyed[K], 0, n)
	for k := range m {
		s, ok := keyString(k)
		if !ok {
			r.Unsched[site]++
			return nil
		}
		ks = append(ks, keyed[K]{k, s})
	}
	sort.Slice(ks, func(i, j int) bool { return ks[i].s < ks[j].s })
	occ := st.Multi
	pinned := false
	if len(r.Sched.KeyOrder) > 0 {
		pos := make(map[string]int, len(r.Sched.KeyOrder))
		for i, k := range r.Sched.KeyOrder {
			pos[k] = i
		}
		all := true
		for _, k := range ks {
			if _, ok := pos[k.s]; !ok {
				all = false
				break
			}
		}
		if all {
			sort.SliceStable(ks, func(i, j int) bool { return pos[ks[i].s] < pos[ks[j].s] })
			pinned = true
		}
	}
	if !pinned {
		switch pol {
		case Native:
			return nil
		case Canonical:
		case Reverse:
			for i, j := 0, n-1; i < j; i, j = i+1, j-1 {
				ks[i], ks[j] = ks[j], ks[i]
			}
		case Rotate:
			off := int(Mix(Hash64(r.Sched.Seed, site)^occ) % uint64(n))
			if off == 0 {
				off = 1
			}
			rot := make([]keyed[K], 0, n)
			rot = append(rot, ks[off:]...)
			rot = append(rot, ks[:off]...)
			ks = rot
		case Shuffle:
			x := Mix(Hash64(r.Sched.Seed, site) ^ (occ * 0x9e3779b97f4a7c15))
			for i := n - 1; i > 0; i-- {
				x = Mix(x)
				j := int(x % uint64(i+1))
				ks[i], ks[j] = ks[j], ks[i]
			}
		}
	}
	// log the event
	canon := true
	for i := 1; i < n; i++ {
		if ks[i-1].s > ks[i].s {
			canon = false
			break
		}
	}
	if !canon {
		st.NonCanon++
	}
	r.NEvents++
	r.logStr(site)
	for _, k := range ks {
		r.logStr(k.s)
	}
	if r.Trace != nil {
		ss := make([]string, n)
		for i, k := range ks {
			ss[i] = k.s
		}
		r.Trace(fmt.Sprintf("map %s #%d %v", site, occ, ss))
	}
	out := make([]K, n)
	for i, k := range ks {
		out[i] = k.k
	}
	return out
}

// MapSeq is what `range m` becomes in instrumented cog code.
func MapSeq[K comparable, V any](m map[K]V, site string) iter.Seq2[K, V] {
	return func(yield func(K, V) bool) {
		keys := order(m, site)
		if keys == nil {
			for k, v := range m {
				if !yield(k, v) {
					return
				}
			}
			return
		}
		for _, k := range keys {
			v, ok := m[k] // an entry deleted during the loop is not produced (spec)
			if !ok {
				continue
			}
			if !yield(k, v) {
				return
			}
		}
	}
}

// RouteKeys, RouteValues and RouteAll put the iterators of package maps behind the seam:
// `maps.Values(m)` is rewritten into `simrt.RouteValues(maps.Values(m), m, site)`.
func RouteKeys[M ~map[K]V, K comparable, V any](_ iter.Seq[K], m M, site string) iter.Seq[K] {
	return func(yield func(K) bool) {
		for k := range MapSeq(map[K]V(m), site) {
			if !yield(k) {
				return
			}
		}
	}
}

func RouteValues[M ~map[K]V, K comparable, V any](_ iter.Seq[V], m M, site string) iter.Seq[V] {
	return func(yield func(V) bool) {
		for _, v := range MapSeq(map[K]V(m), site) {
			if !yield(v) {
				return
			}
		}
	}
}

func RouteAll[M ~map[K]V, K comparable, V any](_ iter.Seq2[K, V], m M, site string) iter.Seq2[K, V] {
	return MapSeq(map[K]V(m), site)
}

// MapIter is the three-clause form used in dependency copies whose go
// directive predates range-over-func.
type MapIter[K comparable, V any] struct {
	m    map[K]V
	keys []K
	i    int
	K    K
	V    V
}

func Iter[K comparable, V any](m map[K]V, site string) *MapIter[K, V] {
	keys := order(m, site)
	if keys == nil {
		keys = make([]K, 0, len(m))
		for k := range m {
			keys = append(keys, k)
		}
	}
	return &MapIter[K, V]{m: m, keys: keys}
}

func (it *MapIter[K, V]) Next() bool {
	for it.i < len(it.keys) {
		k := it.keys[it.i]
		it.i++
		if v, ok := it.m[k]; ok {
			it.K, it.V = k, v
			return true
		}
	}
	return false
}

// ---------------------------------------------------------------- copy seam

// OnCopy is installed by the harness; it receives the receiver and the result
// of every outermost DeepCopy call of a run.
var OnCopy func(orig, cp any, site string)

var copyDepth int

func CopyEnter() { copyDepth++ }

func CopyLeave(orig, cp any, site string) {
	copyDepth--
	if copyDepth == 0 && OnCopy != nil && cur != nil {
		saved := cur
		cur = nil
		defer func() { cur = saved }()
		OnCopy(orig, cp, site)
	}
}

// ResetCopyDepth is called by the harness after a recovered panic.
func ResetCopyDepth() { copyDepth = 0 }
