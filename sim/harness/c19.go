package zzverif

import (
	"encoding/json"
	"fmt"
	"sort"
	"strings"

	"github.com/grafana/cog/internal/orderedmap"
	"verif.local/simrt"
)

// C19 — the insertion-ordered map against a slice-of-pairs reference model.

type omOp struct {
	Op   string   `json:"op"`
	On   int      `json:"on,omitempty"` // which live map the operation targets (derived maps stay alive next to their source)
	Key  string   `json:"key,omitempty"`
	Val  int      `json:"val,omitempty"`
	Idx  int      `json:"idx,omitempty"`
	Keys []string `json:"keys,omitempty"` // FromMap / UnmarshalJSON documents (in document order)
	Vals []int    `json:"vals,omitempty"`
	Mod  int      `json:"mod,omitempty"` // Filter: keep values with v%Mod != 0 ; Map: add Mod
	Inner string  `json:"inner,omitempty"` // re-entrant op inside a callback: set | remove
	Desc bool     `json:"desc,omitempty"`  // Sort direction
	Less string   `json:"less,omitempty"`  // Sort: "" = by key, "len" = by key length, "last" = by last byte (both leave ties between distinct keys)
}

type omCase struct {
	Ops   []omOp         `json:"ops"`
	Sched simrt.Schedule `json:"sched"`
}

type pair struct {
	k string
	v int
}

// omModel is the reference: a slice of pairs in first-insertion order.
type omModel struct{ ps []pair }

func (m *omModel) idx(k string) int {
	for i, p := range m.ps {
		if p.k == k {
			return i
		}
	}
	return -1
}
func (m *omModel) set(k string, v int) {
	if i := m.idx(k); i >= 0 {
		m.ps[i].v = v
		return
	}
	m.ps = append(m.ps, pair{k, v})
}
func (m *omModel) remove(k string) {
	if i := m.idx(k); i >= 0 {
		m.ps = append(m.ps[:i:i], m.ps[i+1:]...)
	}
}
func (m *omModel) clone() *omModel { return &omModel{ps: append([]pair(nil), m.ps...)} }

func (m *omModel) json() string {
	var b strings.Builder
	b.WriteByte('{')
	for i, p := range m.ps {
		if i > 0 {
			b.WriteByte(',')
		}
		kb, _ := json.Marshal(p.k)
		b.Write(kb)
		b.WriteByte(':')
		fmt.Fprintf(&b, "%d", p.v)
	}
	b.WriteByte('}')
	return b.String()
}

// the last ones: characters on which quoting conventions differ (JSON escapes vs
// Go escapes vs HTML-safe escapes): control characters, DEL, a line separator,
// markup characters, a non-printable rune outside the BMP.
var omAlphabet = []string{"a", "b", "c", "d", "A", "", "é", "k\"q", "bell\a\x01", "del\x7f", "ls\u2028<&>", "tag\U000e0001", "back\\slash\ttab"}

// omWide is used by "wide" histories: enough distinct keys for library
// routines to leave their small-input fast paths (sort.Slice is an insertion
// sort, hence stable, up to 12 elements).
var omWide = func() []string {
	out := append([]string(nil), omAlphabet...)
	for i := 0; i < 24; i++ {
		out = append(out, fmt.Sprintf("k%02d%s", i, strings.Repeat("x", i%3)))
	}
	return out
}()

func genOmCase(r *Rand) omCase {
	n := 1 + r.Intn(8)
	if r.Chance(1, 8) {
		n = 9 + r.Intn(32)
	}
	nkeys := 2 + r.Intn(len(omAlphabet)-1)
	keys := omAlphabet[:nkeys]
	wide := r.Chance(1, 6)
	if wide {
		keys = omWide
		n = 25 + r.Intn(40)
	}
	val := 0
	next := func() int { val++; return val }
	ops := make([]omOp, 0, n)
	if wide {
		// start from a well-filled map
		for _, k := range Shuffled(r, omWide)[:14+r.Intn(12)] {
			ops = append(ops, omOp{Op: "set", Key: k, Val: next()})
		}
	}
	kinds := []string{"set", "set", "set", "remove", "remove", "get", "has", "len", "at", "values", "iterate", "map", "filter", "sort", "equal", "frommap", "marshal", "unmarshal", "unmarshal_into", "iterate_re", "map_re", "filter_re", "src_write", "frommap_same"}
	for i := 0; i < n; i++ {
		k := Pick(r, kinds)
		op := omOp{Op: k, On: r.Intn(3)}
		switch k {
		case "set":
			op.Key, op.Val = Pick(r, keys), next()
		case "remove", "get", "has":
			op.Key = Pick(r, keys)
		case "at":
			op.Idx = r.Intn(8)
		case "map":
			op.Mod = 1 + r.Intn(1000)
		case "filter":
			op.Mod = 2 + r.Intn(3)
		case "sort":
			op.Desc = r.Bool()
			op.Less = Pick(r, []string{"", "", "len", "last"})
		case "frommap":
			m := 1 + r.Intn(5)
			seen := map[string]bool{}
			for j := 0; j < m; j++ {
				kk := Pick(r, omAlphabet)
				if seen[kk] {
					continue
				}
				seen[kk] = true
				op.Keys = append(op.Keys, kk)
				op.Vals = append(op.Vals, next())
			}
		case "unmarshal", "unmarshal_into":
			m := r.Intn(6)
			for j := 0; j < m; j++ {
				op.Keys = append(op.Keys, Pick(r, keys)) // duplicates on purpose
				op.Vals = append(op.Vals, next())
			}
		case "iterate_re", "map_re", "filter_re", "src_write":
			op.Inner = Pick(r, []string{"set", "remove"})
			op.Key, op.Val = Pick(r, keys), next()
			if k != "src_write" {
				// derived stream: the histories of earlier seeds keep their other operations
				rs := r.Side("reentrant")
				switch rs.Intn(4) {
				case 0:
					op.Inner, op.Mod = "remove_cur", 1+rs.Intn(255)
				case 1:
					op.Inner, op.Idx = "remove_at", rs.Intn(4)
				}
			}
		}
		ops = append(ops, op)
	}
	sched := simrt.Schedule{Default: Pick(r, []simrt.Policy{simrt.Canonical, simrt.Reverse, simrt.Shuffle, simrt.Rotate}), Seed: r.U64()}
	return omCase{Ops: ops, Sched: sched}
}

func docJSON(keys []string, vals []int) string {
	var b strings.Builder
	b.WriteByte('{')
	for i := range keys {
		if i > 0 {
			b.WriteByte(',')
		}
		kb, _ := json.Marshal(keys[i])
		b.Write(kb)
		fmt.Fprintf(&b, ": %d", vals[i])
	}
	b.WriteByte('}')
	return b.String()
}

// compactJSON removes insignificant whitespace (MarshalJSON's encoder emits newlines).
func compactJSON(b []byte) string {
	var out strings.Builder
	inStr, esc := false, false
	for _, c := range b {
		if inStr {
			out.WriteByte(c)
			if esc {
				esc = false
			} else if c == '\\' {
				esc = true
			} else if c == '"' {
				inStr = false
			}
			continue
		}
		switch c {
		case ' ', '\n', '\t', '\r':
		case '"':
			inStr = true
			out.WriteByte(c)
		default:
			out.WriteByte(c)
		}
	}
	return out.String()
}

// observe compares the whole observable state of the implementation with the model.
func omObserve(m *orderedmap.Map[string, int], ref *omModel, strict bool) string {
	if m.Len() != len(ref.ps) {
		return fmt.Sprintf("Len()=%d, model has %d live keys", m.Len(), len(ref.ps))
	}
	var gotK []string
	var gotV []int
	m.Iterate(func(k string, v int) { gotK = append(gotK, k); gotV = append(gotV, v) })
	if len(gotK) != len(ref.ps) {
		return fmt.Sprintf("Iterate yields %d entries, model has %d", len(gotK), len(ref.ps))
	}
	seen := map[string]bool{}
	for _, k := range gotK {
		if seen[k] {
			return fmt.Sprintf("Iterate yields key %q twice", k)
		}
		seen[k] = true
	}
	if !strict {
		return ""
	}
	for i, p := range ref.ps {
		if gotK[i] != p.k || gotV[i] != p.v {
			return fmt.Sprintf("Iterate[%d]=(%q,%d), model (%q,%d)", i, gotK[i], gotV[i], p.k, p.v)
		}
		if !m.Has(p.k) {
			return fmt.Sprintf("Has(%q)=false for a live key", p.k)
		}
		if m.Get(p.k) != p.v {
			return fmt.Sprintf("Get(%q)=%d, model %d", p.k, m.Get(p.k), p.v)
		}
		if m.At(i) != p.v {
			return fmt.Sprintf("At(%d)=%d, model %d", i, m.At(i), p.v)
		}
	}
	vs := m.Values()
	if len(vs) != len(ref.ps) {
		return fmt.Sprintf("Values() has %d entries, model %d", len(vs), len(ref.ps))
	}
	for i, p := range ref.ps {
		if vs[i] != p.v {
			return fmt.Sprintf("Values()[%d]=%d, model %d", i, vs[i], p.v)
		}
	}
	for _, k := range omWide {
		if ref.idx(k) < 0 && m.Has(k) {
			return fmt.Sprintf("Has(%q)=true for a dead key", k)
		}
	}
	b, err := m.MarshalJSON()
	if err != nil {
		return "MarshalJSON error: " + err.Error()
	}
	// what an earlier encode returned stays what it was: a later encode (of this map or of
	// another one) must not write into it
	if omRetained.b != nil && string(omRetained.b) != omRetained.snap {
		return fmt.Sprintf("the bytes an earlier MarshalJSON returned (%s) were overwritten by a later call (now %s)", truncate(omRetained.snap, 80), truncate(string(omRetained.b), 80))
	}
	omRetained.b, omRetained.snap = b, string(b)
	if got, want := compactJSON(b), ref.json(); got != want {
		return fmt.Sprintf("MarshalJSON=%s, model %s", got, want)
	}
	return ""
}

// omRetained is the result of the previous MarshalJSON observation of the running history.
var omRetained struct {
	b    []byte
	snap string
}

// runOmCase executes the history; it returns (violation key, description, step index).
func runOmCase(c omCase) (key, what string, step int, ex *Exec) {
	step = -1
	omRetained.b, omRetained.snap = nil, ""
	ex = Simulate(c.Sched, nil, 50_000_000, func() error {
		// live maps: a derived map (Map, Filter) stays alive next to its source, and
		// every later operation is followed by an observation of *all* of them, so
		// that structure shared between a map and the map it was derived from shows
		maps := []*orderedmap.Map[string, int]{orderedmap.New[string, int]()}
		refs := []*omModel{{}}
		strict := true
		var lastSrc map[string]int // the Go map the last FromMap was given
		for i, op := range c.Ops {
			step = i
			ti := op.On % len(maps)
			m, ref := maps[ti], refs[ti]
			keep := func(nm *orderedmap.Map[string, int], nref *omModel) {
				if len(maps) < 3 {
					maps, refs = append(maps, nm), append(refs, nref)
					return
				}
				j := (ti + 1) % len(maps)
				maps[j], refs[j] = nm, nref
			}
			fail := func(obs, msg string) error {
				key = op.Op + ":" + obs
				what = fmt.Sprintf("step %d %s: %s", i, op.Op, msg)
				return fmt.Errorf("violation")
			}
			switch op.Op {
			case "set":
				m.Set(op.Key, op.Val)
				ref.set(op.Key, op.Val)
			case "remove":
				m.Remove(op.Key)
				ref.remove(op.Key)
			case "get":
				want := 0
				if j := ref.idx(op.Key); j >= 0 {
					want = ref.ps[j].v
				}
				if strict && m.Get(op.Key) != want {
					return fail("result", fmt.Sprintf("Get(%q)=%d, model %d", op.Key, m.Get(op.Key), want))
				}
			case "has":
				if strict && m.Has(op.Key) != (ref.idx(op.Key) >= 0) {
					return fail("result", fmt.Sprintf("Has(%q)=%v", op.Key, m.Has(op.Key)))
				}
			case "len":
				if m.Len() != len(ref.ps) {
					return fail("result", fmt.Sprintf("Len()=%d, model %d", m.Len(), len(ref.ps)))
				}
			case "at":
				if op.Idx < len(ref.ps) && strict {
					if got := m.At(op.Idx); got != ref.ps[op.Idx].v {
						return fail("result", fmt.Sprintf("At(%d)=%d, model %d", op.Idx, got, ref.ps[op.Idx].v))
					}
				}
			case "values", "iterate", "marshal":
				// covered by the full observation below
			case "map":
				nm := m.Map(func(_ string, v int) int { return v + op.Mod*100000 })
				nref := ref.clone()
				for j := range nref.ps {
					nref.ps[j].v += op.Mod * 100000
				}
				if strict {
					if d := omObserve(nm, nref, true); d != "" {
						return fail("derived", "Map result: "+d)
					}
				}
				keep(nm, nref)
			case "filter":
				nm := m.Filter(func(_ string, v int) bool { return v%op.Mod != 0 })
				nref := &omModel{}
				for _, p := range ref.ps {
					if p.v%op.Mod != 0 {
						nref.ps = append(nref.ps, p)
					}
				}
				if strict {
					if d := omObserve(nm, nref, true); d != "" {
						return fail("derived", "Filter result: "+d)
					}
				}
				keep(nm, nref)
			case "sort":
				less := func(a, b string) bool { return a < b }
				switch op.Less {
				case "len":
					less = func(a, b string) bool { return len(a) < len(b) }
				case "last":
					last := func(s string) byte {
						if s == "" {
							return 0
						}
						return s[len(s)-1]
					}
					less = func(a, b string) bool { return last(a) < last(b) }
				}
				if op.Desc {
					inner := less
					less = func(a, b string) bool { return inner(b, a) }
				}
				m.Sort(less)
				sort.SliceStable(ref.ps, func(a, b int) bool { return less(ref.ps[a].k, ref.ps[b].k) })
			case "equal":
				// Equal is not among the operations the statement lists: it is
				// exercised (it must not panic) but its result is not judged.
				o := orderedmap.New[string, int]()
				for _, p := range ref.ps {
					o.Set(p.k, p.v)
				}
				_ = m.Equal(o)
			case "frommap":
				src := map[string]int{}
				for j, k := range op.Keys {
					src[k] = op.Vals[j]
				}
				nm := orderedmap.FromMap(src)
				nref := &omModel{}
				ks := append([]string(nil), op.Keys...)
				sort.Strings(ks)
				for _, k := range ks {
					nref.set(k, src[k])
				}
				if d := omObserve(nm, nref, true); d != "" {
					return fail("derived", "FromMap result: "+d)
				}
				maps[ti], refs[ti], strict = nm, nref, true
				lastSrc = src
			case "src_write":
				// the Go map a FromMap was given stays the caller's: writing to it
				// afterwards concerns no ordered map (the observation below tells)
				if lastSrc != nil {
					if op.Inner == "set" {
						lastSrc[op.Key] = op.Val
					} else {
						delete(lastSrc, op.Key)
					}
				}
			case "frommap_same":
				// a second ordered map from the same Go map: two independent maps
				if lastSrc != nil {
					nm := orderedmap.FromMap(lastSrc)
					nref := &omModel{}
					ks := make([]string, 0, len(lastSrc))
					for k := range lastSrc {
						ks = append(ks, k)
					}
					sort.Strings(ks)
					for _, k := range ks {
						nref.set(k, lastSrc[k])
					}
					if d := omObserve(nm, nref, true); d != "" {
						return fail("derived", "FromMap result: "+d)
					}
					keep(nm, nref)
				}
			case "unmarshal", "unmarshal_into":
				doc := docJSON(op.Keys, op.Vals)
				target := m
				tref := ref
				if op.Op == "unmarshal" {
					target = orderedmap.New[string, int]()
					tref = &omModel{}
					strict = true
				}
				if err := target.UnmarshalJSON([]byte(doc)); err != nil {
					return fail("error", "UnmarshalJSON("+doc+"): "+err.Error())
				}
				for j, k := range op.Keys {
					// the key as a JSON decoder reads it back from the document
					kb, _ := json.Marshal(k)
					dk := k
					_ = json.Unmarshal(kb, &dk)
					tref.set(dk, op.Vals[j])
				}
				maps[ti], refs[ti] = target, tref
			case "iterate_re", "map_re", "filter_re":
				// a callback that mutates the map being walked. Whether keys added during the
				// walk are visited is left open; what any reading of "iteration follows first
				// insertion" keeps is that a key which is live from the start of the walk to its
				// end is visited exactly once, in first-insertion order, and that the mutations
				// themselves take effect.
				liveAtStart := append([]pair(nil), ref.ps...)
				touched := map[string]bool{}
				var visits []string
				type mutation struct {
					set bool
					k   string
					v   int
				}
				var done []mutation
				visit := 0
				mut := func(cur string) {
					i := visit
					visit++
					visits = append(visits, cur)
					switch op.Inner {
					case "set", "remove":
						if i != 0 {
							return
						}
						if op.Inner == "set" {
							m.Set(op.Key, op.Val)
							done = append(done, mutation{true, op.Key, op.Val})
						} else {
							m.Remove(op.Key)
							done = append(done, mutation{false, op.Key, 0})
						}
						touched[op.Key] = true
					case "remove_cur":
						// removes the key being visited, at the visits selected by the mask
						if i < 16 && op.Mod>>uint(i)&1 == 1 {
							m.Remove(cur)
							done = append(done, mutation{false, cur, 0})
							touched[cur] = true
						}
					case "remove_at":
						// removes one given key at a later visit
						if i == op.Idx%4 {
							m.Remove(op.Key)
							done = append(done, mutation{false, op.Key, 0})
							touched[op.Key] = true
						}
					}
				}
				switch op.Op {
				case "iterate_re":
					m.Iterate(func(k string, _ int) { mut(k) })
				case "map_re":
					_ = m.Map(func(k string, v int) int { mut(k); return v })
				case "filter_re":
					_ = m.Filter(func(k string, _ int) bool { mut(k); return true })
				}
				for _, d := range done {
					if d.set {
						ref.set(d.k, d.v)
					} else {
						ref.remove(d.k)
					}
				}
				var want, got []string
				for _, pr := range liveAtStart {
					if !touched[pr.k] {
						want = append(want, pr.k)
					}
				}
				wantSet := map[string]bool{}
				for _, k := range want {
					wantSet[k] = true
				}
				for _, k := range visits {
					if wantSet[k] {
						got = append(got, k)
					}
				}
				if strings.Join(want, ",") != strings.Join(got, ",") {
					return fail("visits", fmt.Sprintf("%s with a callback that does %s: keys live throughout the walk are [%s], visited among them [%s]", op.Op, op.Inner, strings.Join(want, ","), strings.Join(got, ",")))
				}
			}
			for j := range maps {
				if d := omObserve(maps[j], refs[j], strict); d != "" {
					if j != op.On%len(maps) && op.Op != "frommap" && op.Op != "unmarshal" {
						return fail("sibling-state", fmt.Sprintf("map #%d, which the operation did not target, changed: %s", j, d))
					}
					return fail("state", d)
				}
			}
		}
		return nil
	})
	if ex.Panic != nil {
		opn := "?"
		if step >= 0 && step < len(c.Ops) {
			opn = c.Ops[step].Op
		}
		return opn + ":panic:" + ex.Panic.Class, fmt.Sprintf("step %d %s panicked: %s", step, opn, ex.Panic.Value), step, ex
	}
	return key, what, step, ex
}

// shrinkOm drops and simplifies operations while the same violation key persists.
func shrinkOm(c omCase, key string, budget int) omCase {
	best := c
	try := func(cand omCase) bool {
		if budget <= 0 {
			return false
		}
		budget--
		k, _, _, _ := runOmCase(cand)
		if k == key {
			best = cand
			return true
		}
		return false
	}
	// cut after the failing step
	if _, _, st, _ := runOmCase(best); st >= 0 && st+1 < len(best.Ops) {
		try(omCase{Ops: append([]omOp(nil), best.Ops[:st+1]...), Sched: best.Sched})
	}
	for changed := true; changed && budget > 0; {
		changed = false
		for i := 0; i < len(best.Ops); i++ {
			cand := omCase{Sched: best.Sched}
			cand.Ops = append(cand.Ops, best.Ops[:i]...)
			cand.Ops = append(cand.Ops, best.Ops[i+1:]...)
			if len(cand.Ops) > 0 && try(cand) {
				changed = true
				i--
			}
		}
	}
	canon := best
	canon.Sched = simrt.Schedule{Default: simrt.Canonical}
	try(canon)
	return best
}

func init() {
	Register(&Property{
		ID: "C19",
		RunCase: func(ctx *Ctx, seed uint64, idx int) *CaseResult {
			r := NewRand(seed)
			c := genOmCase(r)
			res := &CaseResult{Execs: 1}
			key, what, _, ex := runOmCase(c)
			ctx.Account(ex)
			nontrivial := false
			for _, op := range c.Ops {
				switch op.Op {
				case "remove", "filter", "sort", "unmarshal_into", "iterate_re", "map_re", "filter_re":
					nontrivial = true
				}
			}
			if nontrivial {
				res.Nontrivial = append(res.Nontrivial, JSONHash(c.Ops))
			}
			res.Sample = map[string]any{"ops": c.Ops, "schedule": c.Sched.Default.String(), "verdict": verdict(key)}
			if key != "" {
				min := shrinkOm(c, key, 300)
				_, what2, _, _ := runOmCase(min)
				if what2 != "" {
					what = what2
				}
				res.Violations = append(res.Violations, Violation{Key: key, What: what, Payload: min})
			}
			return res
		},
		Replay: func(ctx *Ctx, payload json.RawMessage) (string, string) {
			var c omCase
			must(json.Unmarshal(payload, &c))
			key, what, _, _ := runOmCase(c)
			return key, what
		},
	})
}

func verdict(key string) string {
	if key == "" {
		return "ok"
	}
	return "VIOLATION " + key
}
