package zzverif

import (
	"fmt"
	"reflect"
	"sort"

	"github.com/grafana/cog/internal/ast"
)

// RefPos is one place of the IR that names another object.
type RefPos struct {
	Kind  string // ref constref mapping entrypoint selfref builder-for
	Pkg   string
	Name  string
	Where string
}

func (p RefPos) Target() string { return p.Pkg + "." + p.Name }

var (
	tRefType   = reflect.TypeOf(ast.RefType{})
	tConstRef  = reflect.TypeOf(ast.ConstantReferenceType{})
	tDisj      = reflect.TypeOf(ast.DisjunctionType{})
	tObject    = reflect.TypeOf(ast.Object{})
	tSchemaPtr = reflect.TypeOf(&ast.Schema{})
	tBuilder   = reflect.TypeOf(ast.Builder{})
)

type refWalker struct {
	out  []RefPos
	pkg  string // package of the schema being walked
	seen map[uintptr]bool
}

// walk is an independent, reflective traversal of the IR: it knows nothing of
// compiler.Visitor (whose blind spots are the point) and descends into every
// field, including map index types, intersection branches, entry point types
// and the IR values stored in hints.
func (w *refWalker) walk(v reflect.Value, where string, depth int) {
	if !v.IsValid() || depth > 100 {
		return
	}
	switch v.Type() {
	case tRefType:
		r := v.Interface().(ast.RefType)
		w.out = append(w.out, RefPos{"ref", r.ReferredPkg, r.ReferredType, where})
		return
	case tConstRef:
		r := v.Interface().(ast.ConstantReferenceType)
		w.out = append(w.out, RefPos{"constref", r.ReferredPkg, r.ReferredType, where})
		return
	case tDisj:
		d := v.Interface().(ast.DisjunctionType)
		for _, k := range SortedKeys(d.DiscriminatorMapping) {
			target := d.DiscriminatorMapping[k]
			pkg := w.pkg
			for _, b := range d.Branches {
				if b.Kind == ast.KindRef && b.Ref != nil && b.Ref.ReferredType == target {
					pkg = b.Ref.ReferredPkg
				}
			}
			w.out = append(w.out, RefPos{"mapping", pkg, target, where + ".DiscriminatorMapping[" + k + "]"})
		}
		w.walk(v.FieldByName("Branches"), where+".Branches", depth+1)
		return
	case tObject:
		o := v.Interface().(ast.Object)
		w.out = append(w.out, RefPos{"selfref", o.SelfRef.ReferredPkg, o.SelfRef.ReferredType, where + "(" + o.Name + ").SelfRef"})
		w.walk(v.FieldByName("Type"), where+"("+o.Name+").Type", depth+1)
		return
	case tBuilder:
		b := v.Interface().(ast.Builder)
		w.out = append(w.out, RefPos{"builder-for", b.For.SelfRef.ReferredPkg, b.For.SelfRef.ReferredType, where + "(" + b.Name + ").For.SelfRef"})
		for i := 0; i < v.NumField(); i++ {
			if v.Type().Field(i).Name == "For" {
				w.walk(v.Field(i).FieldByName("Type"), where+"("+b.Name+").For.Type", depth+1)
				continue
			}
			w.walk(v.Field(i), where+"("+b.Name+")."+v.Type().Field(i).Name, depth+1)
		}
		return
	}
	switch v.Kind() {
	case reflect.Ptr:
		if v.IsNil() {
			return
		}
		if v.Type() == tSchemaPtr {
			s := v.Interface().(*ast.Schema)
			saved := w.pkg
			w.pkg = s.Package
			if s.EntryPoint != "" {
				w.out = append(w.out, RefPos{"entrypoint", s.Package, s.EntryPoint, where + "[" + s.Package + "].EntryPoint"})
			}
			w.walk(reflect.ValueOf(s.EntryPointType), where+"["+s.Package+"].EntryPointType", depth+1)
			if s.Objects != nil {
				for _, o := range s.Objects.Values() {
					w.walk(reflect.ValueOf(o), where+"["+s.Package+"]", depth+1)
				}
			}
			w.pkg = saved
			return
		}
		w.walk(v.Elem(), where, depth+1)
	case reflect.Interface:
		if v.IsNil() {
			return
		}
		w.walk(v.Elem(), where, depth+1)
	case reflect.Struct:
		for i := 0; i < v.NumField(); i++ {
			if !v.Type().Field(i).IsExported() {
				continue
			}
			w.walk(v.Field(i), where+"."+v.Type().Field(i).Name, depth+1)
		}
	case reflect.Slice, reflect.Array:
		for i := 0; i < v.Len(); i++ {
			w.walk(v.Index(i), fmt.Sprintf("%s[%d]", where, i), depth+1)
		}
	case reflect.Map:
		keys := v.MapKeys()
		sort.Slice(keys, func(i, j int) bool { return fmt.Sprint(keys[i]) < fmt.Sprint(keys[j]) })
		for _, k := range keys {
			w.walk(v.MapIndex(k), fmt.Sprintf("%s[%v]", where, k), depth+1)
		}
	}
}

// CollectRefs lists every reference position of the schemas (and builders).
func CollectRefs(schemas ast.Schemas, builders ast.Builders) []RefPos {
	w := &refWalker{}
	w.walk(reflect.ValueOf([]*ast.Schema(schemas)), "schemas", 0)
	for i := range builders {
		w.pkg = builders[i].Package
		w.walk(reflect.ValueOf(builders[i]), "builders", 0)
	}
	return w.out
}

// objectIndex maps package -> set of object names.
func objectIndex(schemas ast.Schemas) map[string]map[string]bool {
	idx := map[string]map[string]bool{}
	for _, s := range schemas {
		if s == nil {
			continue
		}
		m := idx[s.Package]
		if m == nil {
			m = map[string]bool{}
			idx[s.Package] = m
		}
		if s.Objects != nil {
			for _, o := range s.Objects.Values() {
				m[o.Name] = true
			}
		}
	}
	return idx
}

// Dangling returns the reference positions that name a loaded package but no
// object of it. References into packages that were not loaded are outside the
// claim. A selfref is dangling when it does not name its own object.
func Dangling(schemas ast.Schemas, builders ast.Builders) []RefPos {
	idx := objectIndex(schemas)
	var out []RefPos
	for _, p := range CollectRefs(schemas, builders) {
		objs, loaded := idx[p.Pkg]
		if !loaded {
			continue
		}
		if !objs[p.Name] {
			out = append(out, p)
		}
	}
	return out
}

func danglingTargets(ps []RefPos) []string {
	seen := map[string]bool{}
	var out []string
	for _, p := range ps {
		k := p.Kind + ":" + p.Target()
		if !seen[k] {
			seen[k] = true
			out = append(out, k)
		}
	}
	sort.Strings(out)
	return out
}

// Reachable computes, on the unfiltered IR, the least set of objects of pkg
// containing the roots (matched like LocateObject does: exact name) and closed
// under "is referenced by".
func Reachable(schemas ast.Schemas, pkg string, roots []string) map[string]bool {
	objs := map[string]ast.Object{}
	for _, s := range schemas {
		if s.Package != pkg || s.Objects == nil {
			continue
		}
		for _, o := range s.Objects.Values() {
			objs[o.Name] = o
		}
	}
	reach := map[string]bool{}
	var queue []string
	for _, r := range roots {
		if _, ok := objs[r]; ok && !reach[r] {
			reach[r] = true
			queue = append(queue, r)
		}
	}
	for len(queue) > 0 {
		n := queue[0]
		queue = queue[1:]
		w := &refWalker{pkg: pkg}
		w.walk(reflect.ValueOf(objs[n].Type), n, 0)
		for _, p := range w.out {
			if (p.Kind != "ref" && p.Kind != "constref") || p.Pkg != pkg {
				continue
			}
			if _, ok := objs[p.Name]; ok && !reach[p.Name] {
				reach[p.Name] = true
				queue = append(queue, p.Name)
			}
		}
	}
	return reach
}

// OrphanMappings counts discriminator-mapping entries whose target is not the
// type of any branch of their disjunction. The statement does not speak of them
// (their target may well exist), but once a history has produced one, a later
// rename cannot be expected to keep it in step: such an IR is not judged further.
func OrphanMappings(schemas ast.Schemas) int {
	n := 0
	var walk func(v reflect.Value, depth int)
	walk = func(v reflect.Value, depth int) {
		if !v.IsValid() || depth > 100 {
			return
		}
		if v.Type() == tDisj {
			d := v.Interface().(ast.DisjunctionType)
			for _, target := range d.DiscriminatorMapping {
				found := false
				for _, b := range d.Branches {
					if b.Kind == ast.KindRef && b.Ref != nil && b.Ref.ReferredType == target {
						found = true
					}
				}
				if !found {
					n++
				}
			}
		}
		switch v.Kind() {
		case reflect.Ptr, reflect.Interface:
			if !v.IsNil() {
				walk(v.Elem(), depth+1)
			}
		case reflect.Struct:
			for i := 0; i < v.NumField(); i++ {
				if v.Type().Field(i).IsExported() {
					walk(v.Field(i), depth+1)
				}
			}
		case reflect.Slice, reflect.Array:
			for i := 0; i < v.Len(); i++ {
				walk(v.Index(i), depth+1)
			}
		case reflect.Map:
			it := v.MapRange()
			for it.Next() {
				walk(it.Value(), depth+1)
			}
		}
	}
	for _, s := range schemas {
		if s == nil || s.Objects == nil {
			continue
		}
		walk(reflect.ValueOf(s.EntryPointType), 0)
		for _, o := range s.Objects.Values() {
			walk(reflect.ValueOf(o.Type), 0)
		}
	}
	return n
}
