package zzverif

import (
	"regexp"
	"encoding/json"
	"fmt"
	"os"
	"path/filepath"
	"sort"
	"strings"

	"github.com/grafana/cog/internal/ast"
	"github.com/grafana/cog/internal/languages"
	"github.com/grafana/cog/internal/veneers/builder"
	"github.com/grafana/cog/internal/veneers/option"
	"github.com/grafana/cog/internal/veneers/rewrite"
	cogyaml "github.com/grafana/cog/internal/yaml"
	"gopkg.in/yaml.v3"
	"verif.local/simrt"
)

// C17 — builder transformations keep builders well-typed and do only what they
// document: seeded histories of rules with invariants after every rule.

type c17Payload struct {
	// Chain: when set, every generated rule is an option rule aimed at the option of
	// that name of builder Thing (rules acting on what earlier rules produced)
	Chain string `json:"chain,omitempty"`
	W     *Workload      `json:"workload"`
	Lang  string         `json:"lang"`
	Rules []RuleSpec     `json:"rules"`
	Pkgs  []string       `json:"pkgs"` // package each rule file declares
	Sched simrt.Schedule `json:"schedule"`
}

func noTrail(v any) string { return toJSON(stripTrails(toGeneric(v), nil)) }

// sameType compares two types, transformation trails and default values aside
// (struct_fields_as_arguments deliberately copies the option's default onto the
// argument and path types).
func sameType(a, b ast.Type) bool {
	return toJSON(stripKey(stripTrails(toGeneric(a), nil), "Default")) == toJSON(stripKey(stripTrails(toGeneric(b), nil), "Default"))
}

// sameTypeLoose: sameType, nullability aside, and whether a scalar is a constant aside
// (an argument of type string assigned to a field that is the constant "fixed" has the
// field's type; that the field admits one value only is not a typing matter), and the
// hints jennies read (a date-time string is a string) aside.
func sameTypeLoose(a, b ast.Type) bool {
	a.Nullable, b.Nullable = false, false
	strip := func(t ast.Type) string {
		return toJSON(stripKey(stripKey(stripKey(stripTrails(toGeneric(t), nil), "Default"), "Value"), "Hints"))
	}
	return strip(a) == strip(b)
}

func stripKey(v any, key string) any {
	switch x := v.(type) {
	case map[string]any:
		m := make(map[string]any, len(x))
		for k, e := range x {
			if k == key {
				continue
			}
			m[k] = stripKey(e, key)
		}
		return m
	case []any:
		l := make([]any, len(x))
		for i, e := range x {
			l[i] = stripKey(e, key)
		}
		return l
	}
	return v
}

// ---------------------------------------------------------------- invariants (i) and (ii)

func resolveStruct(schemas ast.Schemas, t ast.Type) (ast.Type, bool) {
	for i := 0; i < 50; i++ {
		if t.Kind == ast.KindRef && t.Ref != nil {
			o, ok := schemas.LocateObject(t.Ref.ReferredPkg, t.Ref.ReferredType)
			if !ok {
				return t, false
			}
			t = o.Type
			continue
		}
		break
	}
	return t, t.Kind == ast.KindStruct && t.Struct != nil
}

// checkPath walks an assignment path from the type of the built object.
// It returns "" or a description of the first ill-typed step.
func checkPath(schemas ast.Schemas, root ast.Type, path ast.Path) (string, string) {
	cur := root
	for i, item := range path {
		if item.Index != nil && item.Identifier == "" {
			// indexing into the previous item
			switch cur.Kind {
			case ast.KindMap:
				if cur.Map != nil && !sameType(cur.Map.ValueType, item.Type) {
					return "index-type", fmt.Sprintf("path item %d indexes a map whose values are %s but is typed %s", i, truncate(noTrail(cur.Map.ValueType), 80), truncate(noTrail(item.Type), 80))
				}
			case ast.KindArray:
				if cur.Array != nil && !sameType(cur.Array.ValueType, item.Type) {
					return "index-type", fmt.Sprintf("path item %d indexes an array of %s but is typed %s", i, truncate(noTrail(cur.Array.ValueType), 80), truncate(noTrail(item.Type), 80))
				}
			default:
				return "index-on-non-collection", fmt.Sprintf("path item %d indexes a %s", i, cur.Kind)
			}
			cur = item.Type
			continue
		}
		st, ok := resolveStruct(schemas, cur)
		if !ok {
			if i > 0 && path[i-1].TypeHint != nil {
				return "", "" // composed through a type hint over `any`: existence cannot be judged
			}
			return "not-a-struct", fmt.Sprintf("path item %d (%s) is looked up in a %s", i, item.Identifier, cur.Kind)
		}
		// structs derived from unions may hold several fields of one name: any of them may be meant
		var f ast.StructField
		found, typed := false, false
		for _, cand := range st.Struct.Fields {
			if cand.Name != item.Identifier {
				continue
			}
			if !found {
				f = cand
			}
			found = true
			if sameType(cand.Type, item.Type) {
				f, typed = cand, true
				break
			}
		}
		if !found {
			return "no-such-field", fmt.Sprintf("path item %d names field %q, which the object does not have (path %s)", i, item.Identifier, path.String())
		}
		if !typed {
			return "field-type", fmt.Sprintf("path item %d (%s) is typed %s but the field is %s", i, item.Identifier, truncate(noTrail(item.Type), 90), truncate(noTrail(f.Type), 90))
		}
		cur = f.Type
		if item.TypeHint != nil {
			cur = *item.TypeHint
		}
	}
	return "", ""
}

func argDeclared(args []ast.Argument, a *ast.Argument) bool {
	for _, d := range args {
		if d.Name == a.Name && sameType(d.Type, a.Type) {
			return true
		}
	}
	return false
}

func argNameDeclared(args []ast.Argument, name string) bool {
	for _, d := range args {
		if d.Name == name {
			return true
		}
	}
	return false
}

func checkValueArgs(args []ast.Argument, v ast.AssignmentValue) (string, string) {
	if v.Argument != nil && !argDeclared(args, v.Argument) {
		if argNameDeclared(args, v.Argument.Name) {
			return "argument-type", fmt.Sprintf("assignment uses argument %q with a type different from its declaration", v.Argument.Name)
		}
		return "argument-undeclared", fmt.Sprintf("assignment uses argument %q, which is not declared", v.Argument.Name)
	}
	if v.Envelope != nil {
		for _, ev := range v.Envelope.Values {
			if k, w := checkValueArgs(args, ev.Value); k != "" {
				return k, w
			}
		}
	}
	return "", ""
}

func checkAssignments(schemas ast.Schemas, b ast.Builder, args []ast.Argument, as []ast.Assignment, where string, userTyped bool) (string, string) {
	for _, a := range as {
		if k, w := checkPath(schemas, b.For.Type, a.Path); k != "" {
			return "path:" + k, where + ": " + w
		}
		if k, w := checkValueArgs(args, a.Value); k != "" {
			return k, where + ": " + w
		}
		// a plain `target = argument` assignment: the argument has the target's type
		// (nullability and defaults aside; unions are narrowed by disjunction_as_options)
		if !userTyped && a.Method == ast.DirectAssignment && a.Value.Argument != nil && len(a.Path) > 0 {
			target := a.Path.Last().Type
			if a.Path.Last().TypeHint == nil && target.Kind != ast.KindDisjunction && !target.IsAny() && !sameTypeLoose(target, a.Value.Argument.Type) {
				return "value-type", fmt.Sprintf("%s: argument %q of type %s is assigned to %s, whose type is %s", where, a.Value.Argument.Name, truncate(noTrail(a.Value.Argument.Type), 80), a.Path.String(), truncate(noTrail(target), 80))
			}
		}
		for _, it := range a.Path {
			if it.Index != nil && it.Index.Argument != nil && !argDeclared(args, it.Index.Argument) {
				return "index-argument-undeclared", fmt.Sprintf("%s: path index uses argument %q, which is not declared", where, it.Index.Argument.Name)
			}
		}
		for _, c := range a.Constraints {
			if !argNameDeclared(args, c.Argument.Name) {
				return "constraint-argument-undeclared", fmt.Sprintf("%s: a constraint is expressed on argument %q, which is not declared", where, c.Argument.Name)
			}
		}
	}
	return "", ""
}

// wellTyped evaluates invariants (i) and (ii) on a builder set.
func wellTyped(schemas ast.Schemas, builders ast.Builders) (string, string) {
	for _, b := range builders {
		if k, w := checkAssignments(schemas, b, b.Constructor.Args, b.Constructor.Assignments, b.Package+"."+b.Name+" constructor", false); k != "" {
			return k, w
		}
		for _, o := range b.Options {
			userTyped := false
			if k, w := checkAssignments(schemas, b, o.Args, o.Assignments, b.Package+"."+b.Name+"."+o.Name, userTyped); k != "" {
				return k, w
			}
		}
	}
	return "", ""
}

// ---------------------------------------------------------------- selectors (model)

func builderSelected(schemas ast.Schemas, rs RuleSpec, pkg string, b ast.Builder) bool {
	switch rs.SelKind {
	case "by_object":
		return fold(b.For.SelfRef.ReferredPkg, pkg) && fold(b.For.SelfRef.ReferredType, rs.SelA)
	case "by_name":
		return fold(b.For.SelfRef.ReferredPkg, pkg) && fold(b.Name, rs.SelA)
	case "by_variant":
		s, ok := schemas.Locate(b.For.SelfRef.ReferredPkg)
		return ok && s.Metadata.Kind == ast.SchemaKindComposable && string(s.Metadata.Variant) == rs.SelA && s.Metadata.Identifier != ""
	case "generated_from_disjunction":
		t, _ := resolveStruct(schemas, b.For.Type)
		return t.Kind == ast.KindStruct && (t.Hints[ast.HintDisjunctionOfScalars] != nil || t.Hints[ast.HintDiscriminatedDisjunctionOfRefs] != nil)
	}
	return false
}

func optionSelected(rs RuleSpec, pkg string, b ast.Builder, o ast.Option) bool {
	inFold := func(name string, names []string) bool {
		for _, n := range names {
			if fold(n, name) {
				return true
			}
		}
		return false
	}
	switch rs.SelKind {
	case "by_name":
		obj, opt, _ := strings.Cut(rs.SelA, ".")
		return b.For.SelfRef.ReferredPkg == pkg && fold(b.For.Name, obj) && fold(o.Name, opt)
	case "by_builder":
		bn, opt, _ := strings.Cut(rs.SelA, ".")
		return b.Package == pkg && fold(b.Name, bn) && fold(o.Name, opt)
	case "by_names_object":
		return b.For.SelfRef.ReferredPkg == pkg && fold(b.For.Name, rs.SelA) && inFold(o.Name, rs.SelOpts)
	case "by_names_builder":
		return b.Package == pkg && fold(b.Name, rs.SelA) && inFold(o.Name, rs.SelOpts)
	}
	return false
}

// ---------------------------------------------------------------- one step

func builderID(b ast.Builder) string { return b.Package + "." + b.Name + "#" + b.For.SelfRef.String() }

func pathIdents(p ast.Path) []string {
	var out []string
	for _, it := range p {
		out = append(out, it.Identifier)
	}
	return out
}

func hasPrefix(p, prefix []string) bool {
	if len(prefix) > len(p) {
		return false
	}
	for i := range prefix {
		if p[i] != prefix[i] {
			return false
		}
	}
	return true
}

// judgeRule checks frame and contracts of one applied rule.
func judgeRule(schemas ast.Schemas, rs RuleSpec, pkg string, before, after ast.Builders) (string, string) {
	if rs.Scope == "builder" {
		afterByID := map[string][]ast.Builder{}
		for _, b := range after {
			afterByID[builderID(b)] = append(afterByID[builderID(b)], b)
		}
		selected := 0
		for _, b := range before {
			if len(b.Options) == 0 {
				continue // dismissed by the rewriter whatever the rule: outside the claim
			}
			sel := builderSelected(schemas, rs, pkg, b)
			if rs.Kind == "merge_into" {
				sel = fold(b.For.SelfRef.ReferredPkg, pkg) && fold(b.Name, rs.SelA)
			}
			if rs.Kind == "compose" {
				// the source builder is consumed too
				sp, so, _ := strings.Cut(rs.Source, ".")
				if b.For.SelfRef.ReferredPkg == sp && b.For.SelfRef.ReferredType == so {
					sel = true
				}
			}
			if sel {
				selected++
				continue
			}
			// frame
			found := false
			for _, a := range afterByID[builderID(b)] {
				if toJSON(toGeneric(a)) == toJSON(toGeneric(b)) {
					found = true
				}
			}
			if !found {
				if len(afterByID[builderID(b)]) == 0 {
					return "frame|builder-lost", fmt.Sprintf("builder %s, which the rule does not select, disappeared", builderID(b))
				}
				d := firstDiff(toGeneric(b), toGeneric(afterByID[builderID(b)][0]), "")
				return "frame|builder-changed|" + normDiffPath(d), fmt.Sprintf("builder %s, which the rule does not select, changed at %s", builderID(b), d)
			}
		}
		switch rs.Kind {
		case "merge_into":
			// documented effect: every option of the source that is not excluded is added to
			// the destination. Judged only for a consistent configuration (one destination,
			// one source, both spelt exactly) - what a misspelt name selects is left open.
			if rs.Misconfigured {
				break
			}
			for _, b := range before {
				if len(b.Options) == 0 || b.For.SelfRef.ReferredPkg != pkg || b.Name != rs.SelA {
					continue
				}
				var src *ast.Builder
				for i := range before {
					if before[i].For.SelfRef.ReferredPkg == b.For.SelfRef.ReferredPkg && before[i].Name == rs.Source {
						src = &before[i]
						break
					}
				}
				if src == nil {
					continue
				}
				added := 0
				for _, o := range src.Options {
					excluded := false
					for _, n := range rs.Names {
						if n == o.Name {
							excluded = true
						}
					}
					if !excluded {
						added++
					}
				}
				as := afterByID[builderID(b)]
				if len(as) != 1 {
					continue
				}
				if len(as[0].Options) != len(b.Options)+added {
					return "contract|merge_into|options-not-added", fmt.Sprintf("merge_into %s <- %s: destination %s has %d options after, %d before, the source offers %d", rs.SelA, rs.Source, builderID(b), len(as[0].Options), len(b.Options), added)
				}
			}
		case "omit":
			for _, b := range before {
				if builderSelected(schemas, rs, pkg, b) && len(afterByID[builderID(b)]) > 0 {
					return "contract|omit|kept", fmt.Sprintf("omit kept the selected builder %s", builderID(b))
				}
			}
		case "rename":
			for _, b := range before {
				if !builderSelected(schemas, rs, pkg, b) || len(b.Options) == 0 {
					continue
				}
				ok := false
				for _, a := range after {
					if a.Name == rs.As && a.For.SelfRef == b.For.SelfRef {
						x, y := b, a
						x.Name, y.Name = "", ""
						x.VeneerTrail, y.VeneerTrail = nil, nil
						if toJSON(toGeneric(x)) == toJSON(toGeneric(y)) {
							ok = true
						}
					}
				}
				if !ok {
					return "contract|rename|more-than-name", fmt.Sprintf("rename of builder %s changed more than its name (or lost it)", builderID(b))
				}
			}
		case "duplicate":
			for _, b := range before {
				if !builderSelected(schemas, rs, pkg, b) || len(b.Options) == 0 {
					continue
				}
				ok := false
				var diff string
				for _, a := range after {
					if a.Name != rs.As || a.For.SelfRef != b.For.SelfRef {
						continue
					}
					x, y := b, a
					x.Name, y.Name = "", ""
					x.VeneerTrail, y.VeneerTrail = nil, nil
					if len(rs.Names) > 0 {
						var kept []ast.Option
						for _, o := range x.Options {
							drop := false
							for _, n := range rs.Names {
								if fold(n, o.Name) {
									drop = true
								}
							}
							if !drop {
								kept = append(kept, o)
							}
						}
						x.Options = kept
					}
					if len(x.Options) == 0 {
						ok = true // every option excluded: the copy is dismissed
						continue
					}
					if d := firstDiff(toGeneric(x), toGeneric(y), ""); d == "" {
						ok = true
					} else {
						diff = d
					}
				}
				if !ok {
					if diff == "" {
						if len(rs.Names) > 0 {
							continue
						}
						return "contract|duplicate|missing", fmt.Sprintf("duplicate of builder %s as %s was not produced", builderID(b), rs.As)
					}
					return "contract|duplicate|" + normDiffPath(diff), fmt.Sprintf("the duplicate of builder %s differs from its source at %s", builderID(b), diff)
				}
			}
		}
		return "", ""
	}
	// option rules keep the builders in place: after = before minus the builders
	// left without options. Builders are paired positionally.
	j := 0
	for _, b := range before {
		if len(b.Options) == 0 {
			continue
		}
		anySel := false
		for _, o := range b.Options {
			if optionSelected(rs, pkg, b, o) {
				anySel = true
			}
		}
		var a ast.Builder
		ok := false
		if j < len(after) && builderID(after[j]) == builderID(b) {
			a, ok = after[j], true
			j++
		}
		if !ok {
			if !anySel {
				return "frame|builder-lost", fmt.Sprintf("builder %s, none of whose options the rule selects, disappeared", builderID(b))
			}
			continue // every option was removed: the builder is dismissed
		}
		if !anySel {
			if d := firstDiff(toGeneric(b), toGeneric(a), ""); d != "" {
				return "frame|builder-changed|" + normDiffPath(d), fmt.Sprintf("builder %s, none of whose options the rule selects, changed at %s", builderID(b), d)
			}
			continue
		}
		// everything but the options is untouched
		x, y := b, a
		x.Options, y.Options = nil, nil
		if d := firstDiff(toGeneric(x), toGeneric(y), ""); d != "" {
			return "frame|builder-changed|" + normDiffPath(d), fmt.Sprintf("an option rule changed builder %s outside its options at %s", builderID(b), d)
		}
		var selIdx []int
		for i, o := range b.Options {
			if optionSelected(rs, pkg, b, o) {
				selIdx = append(selIdx, i)
			}
		}
		if len(selIdx) == 1 {
			// after = before[:i] + produced + before[i+1:]
			i := selIdx[0]
			tail := len(b.Options) - i - 1
			if len(a.Options) < i+tail {
				return "frame|option-lost", fmt.Sprintf("an option of %s that the rule does not select disappeared", builderID(b))
			}
			for j := 0; j < i; j++ {
				if d := firstDiff(toGeneric(b.Options[j]), toGeneric(a.Options[j]), ""); d != "" {
					return "frame|option-changed|" + normDiffPath(d), fmt.Sprintf("option %s.%s, which the rule does not select, changed at %s", builderID(b), b.Options[j].Name, d)
				}
			}
			for j := 0; j < tail; j++ {
				bo, ao := b.Options[len(b.Options)-1-j], a.Options[len(a.Options)-1-j]
				if d := firstDiff(toGeneric(bo), toGeneric(ao), ""); d != "" {
					return "frame|option-changed|" + normDiffPath(d), fmt.Sprintf("option %s.%s, which the rule does not select, changed at %s", builderID(b), bo.Name, d)
				}
			}
			produced := a.Options[i : len(a.Options)-tail]
			if k, w := judgeOptionContract(rs, b, b.Options[i], produced); k != "" {
				return k, w
			}
			continue
		}
		// several options selected: only the frame is judged (unselected options
		// survive unchanged, in order)
		cursor := 0
		for _, o := range b.Options {
			if optionSelected(rs, pkg, b, o) {
				continue
			}
			found := false
			for cursor < len(a.Options) {
				if toJSON(toGeneric(a.Options[cursor])) == toJSON(toGeneric(o)) {
					found = true
					cursor++
					break
				}
				cursor++
			}
			if !found {
				return "frame|option-changed-or-lost", fmt.Sprintf("option %s.%s, which the rule does not select, is not found unchanged after the rule", builderID(b), o.Name)
			}
		}
	}
	return "", ""
}

func judgeOptionContract(rs RuleSpec, b ast.Builder, orig ast.Option, produced []ast.Option) (string, string) {
	where := builderID(b) + "." + orig.Name
	switch rs.Kind {
	case "omit":
		if len(produced) != 0 {
			return "contract|option-omit|kept", fmt.Sprintf("omit of %s left %d option(s) in its place", where, len(produced))
		}
	case "rename":
		if len(produced) != 1 {
			return "contract|option-rename|count", fmt.Sprintf("rename of %s produced %d options", where, len(produced))
		}
		x, y := orig, produced[0]
		if y.Name != rs.As {
			return "contract|option-rename|name", fmt.Sprintf("rename of %s gave it the name %q, not %q", where, y.Name, rs.As)
		}
		x.Name, y.Name = "", ""
		x.VeneerTrail, y.VeneerTrail = nil, nil
		if d := firstDiff(toGeneric(x), toGeneric(y), ""); d != "" {
			return "contract|option-rename|" + normDiffPath(d), fmt.Sprintf("rename of %s changed more than its name, at %s", where, d)
		}
	case "duplicate":
		if len(produced) != 2 {
			return "contract|option-duplicate|count", fmt.Sprintf("duplicate of %s produced %d options instead of the original and its copy", where, len(produced))
		}
		if d := firstDiff(toGeneric(orig), toGeneric(produced[0]), ""); d != "" {
			return "contract|option-duplicate|source-changed|" + normDiffPath(d), fmt.Sprintf("duplicate changed the source option %s at %s", where, d)
		}
		x, y := orig, produced[1]
		x.Name, y.Name = "", ""
		x.VeneerTrail, y.VeneerTrail = nil, nil
		if d := firstDiff(toGeneric(x), toGeneric(y), ""); d != "" {
			return "contract|option-duplicate|" + normDiffPath(d), fmt.Sprintf("the duplicate of option %s differs from its source at %s", where, d)
		}
	case "array_to_append", "map_to_index", "unfold_boolean", "struct_fields_as_arguments", "struct_fields_as_options", "disjunction_as_options":
		if len(orig.Assignments) == 0 {
			return "", ""
		}
		var roots [][]string
		for _, a := range orig.Assignments {
			ids := pathIdents(a.Path)
			for len(ids) > 0 && ids[len(ids)-1] == "" {
				ids = ids[:len(ids)-1]
			}
			roots = append(roots, ids)
		}
		if len(produced) == 0 {
			if len(rs.Names) > 0 {
				return "", "" // an explicit field list that matches nothing: not covered by the contract
			}
			return "contract|" + rs.Kind + "|vanished", fmt.Sprintf("%s turned option %s into nothing", rs.Kind, where)
		}
		for _, p := range produced {
			for _, a := range p.Assignments {
				ids := pathIdents(a.Path)
				// drop the index items appended by map_to_index
				for len(ids) > 0 && ids[len(ids)-1] == "" {
					ids = ids[:len(ids)-1]
				}
				ok := false
				for _, r := range roots {
					if hasPrefix(ids, r) {
						ok = true
					}
				}
				if !ok {
					return "contract|" + rs.Kind + "|target", fmt.Sprintf("%s on %s produced option %s assigning %s, which is not below any target of the original (%v)", rs.Kind, where, p.Name, strings.Join(ids, "."), roots)
				}
			}
		}
	}
	return "", ""
}

// ---------------------------------------------------------------- the rewriter's loop

func cloneBuilders(b ast.Builders) ast.Builders {
	var out ast.Builders
	if err := json.Unmarshal([]byte(toJSON(toGeneric(b))), &out); err != nil {
		return nil
	}
	return out
}

// referenceRewrite applies the rules in the documented order - rules common to
// all languages first, then the language's own; within each group builder rules
// then option rules, each list in file order; a builder left without options is
// dismissed at the end of a group - using the real rule closures.
func referenceRewrite(schemas ast.Schemas, builders ast.Builders, lang string, rules []RuleSpec, pkgs []string) (ast.Builders, error) {
	for _, group := range []string{"all", lang} {
		var brs []builder.RewriteRule
		var ors []option.RewriteRule
		for i, rs := range rules {
			if rs.Lang != group {
				continue
			}
			v := cogyaml.Veneers{}
			if err := yaml.Unmarshal([]byte(VeneerFileYAML(group, pkgs[i], []RuleSpec{rs})), &v); err != nil {
				return nil, err
			}
			for _, r := range v.Builders {
				c, err := r.AsRewriteRule(v.Package)
				if err != nil {
					return nil, err
				}
				brs = append(brs, c)
			}
			for _, r := range v.Options {
				c, err := r.AsRewriteRule(v.Package)
				if err != nil {
					return nil, err
				}
				ors = append(ors, c)
			}
		}
		var err error
		for _, r := range brs {
			if builders, err = r(schemas, builders); err != nil {
				return nil, err
			}
		}
		for _, r := range ors {
			for i, b := range builders {
				var opts []ast.Option
				for _, o := range b.Options {
					if !r.Selector(b, o) {
						opts = append(opts, o)
						continue
					}
					opts = append(opts, r.Action(schemas, b, o)...)
				}
				builders[i].Options = opts
			}
		}
		var kept ast.Builders
		for _, b := range builders {
			if len(b.Options) != 0 {
				kept = append(kept, b)
			}
		}
		builders = kept
	}
	return builders, nil
}

// c17RewriterOrder: the same rules, tagged `all` or with the language, loaded as
// one rewriter, must give what the documented order gives.
func c17RewriterOrder(ctx *Ctx, res *CaseResult, dir string, schemas ast.Schemas, start ast.Builders, p *c17Payload) (string, string) {
	for i := range p.Rules {
		if p.Rules[i].Lang == "" {
			p.Rules[i].Lang = "all"
		}
	}
	d := filepath.Join(dir, "c17order")
	_ = os.RemoveAll(d)
	must(os.MkdirAll(d, 0o755))
	var files []string
	for i, rs := range p.Rules {
		f := filepath.Join(d, fmt.Sprintf("r%02d.yaml", i))
		must(os.WriteFile(f, []byte(VeneerFileYAML(rs.Lang, p.Pkgs[i], []RuleSpec{rs})), 0o644))
		files = append(files, f)
	}
	var got, want ast.Builders
	CurrentDesc.Store("C17 rewriter order")
	ex := Simulate(p.Sched, nil, pipelineMaxTicks, func() error {
		rw, err := cogyaml.NewVeneersLoader().RewriterFrom(files, rewrite.Config{})
		if err != nil {
			return err
		}
		got, err = rw.ApplyTo(schemas, cloneBuilders(start), p.Lang)
		return err
	})
	ctx.Account(ex)
	res.Execs++
	if ex.Panic != nil || ex.Err != nil {
		ctx.Count("order.oneshot_failed", 1)
		return "", ""
	}
	ex = Simulate(p.Sched, nil, pipelineMaxTicks, func() error {
		var err error
		want, err = referenceRewrite(schemas, cloneBuilders(start), p.Lang, p.Rules, p.Pkgs)
		return err
	})
	ctx.Account(ex)
	res.Execs++
	if ex.Panic != nil || ex.Err != nil {
		ctx.Count("order.reference_failed", 1)
		return "", ""
	}
	ctx.Count("order.compared", 1)
	if df := firstDiff(toGeneric(want), toGeneric(got), ""); df != "" {
		var tags []string
		for _, rs := range p.Rules {
			tags = append(tags, rs.Lang+":"+rs.Scope+":"+rs.Kind)
		}
		return "rewriter-order|" + normDiffPath(df), fmt.Sprintf("rules %v loaded as one rewriter for %s differ from the documented order (common rules, then the language's; builder rules then option rules) at %s (documented vs rewriter)", tags, p.Lang, df)
	}
	return "", ""
}

// ---------------------------------------------------------------- history runner

func c17Check(ctx *Ctx, res *CaseResult, dir string, p *c17Payload, regen *Rand) map[string]string {
	out := map[string]string{}
	// schemas: the language's chain output; builders: derived by the real generator
	var lc *languages.Context
	w := p.W.Clone()
	w.Builders = false
	w.Languages = []LangSpec{{Name: p.Lang, Flags: map[string]string{}}}
	_, _, ex := execWorkload(dir, w, simrt.Schedule{Default: simrt.Canonical}, nil, RunOpts{Inspect: true, OnContext: func(_ string, c languages.Context) { cc := c; lc = &cc }})
	ctx.Account(ex)
	res.Execs++
	if lc == nil {
		ctx.Count("load_failed", 1)
		return out
	}
	schemas := lc.Schemas
	var builders ast.Builders
	ex = Simulate(simrt.Schedule{Default: simrt.Canonical}, nil, pipelineMaxTicks, func() error {
		builders = (&ast.BuilderGenerator{}).FromAST(schemas)
		return nil
	})
	ctx.Account(ex)
	if ex.Panic != nil || len(builders) == 0 {
		ctx.Count("no_builders", 1)
		return out
	}
	if k, wtxt := wellTyped(schemas, builders); k != "" {
		out["step0|"+k] = "derived builders (before any rule): " + wtxt
		return out
	}
	n := len(p.Rules)
	npreset := 0
	if regen != nil {
		// rules already in the payload are the scenario's set-up; the history is drawn after them
		npreset = len(p.Rules)
		n = npreset + 1 + regen.Intn(6)
	}
	startBuilders := cloneBuilders(builders)
	defer func() {
		if len(out) == 0 && len(p.Rules) >= 2 && startBuilders != nil {
			if k, wtxt := c17RewriterOrder(ctx, res, dir, schemas, startBuilders, p); k != "" {
				out[k] = wtxt
			}
		}
	}()
	veneerDir := filepath.Join(dir, "c17veneers")
	must(os.MkdirAll(veneerDir, 0o755))
	var pendingRule *RuleSpec
	pendingPkg := ""
	for i := 0; i < n; i++ {
		var rs RuleSpec
		var pkg string
		if regen != nil && i >= npreset {
			bvs := BuildersViewOf(schemas, builders)
			if len(bvs) == 0 {
				break
			}
			pkg = Pick(regen, bvs).Pkg
			if regen.Chance(2, 5) {
				rs = GenRuleSpec(regen, bvs, pkg, "builder", Pick(regen, builderRuleKinds))
			} else {
				rs = GenRuleSpec(regen, bvs, pkg, "option", Pick(regen, optionRuleKinds))
			}
			// a follow-up on the option the previous rule reshaped: rules interact through
			// what the previous one left behind (index arguments, envelopes, shared slices)
			if len(p.Rules) > 0 && regen.Chance(1, 3) {
				prev := p.Rules[len(p.Rules)-1]
				if prev.Scope == "option" && (prev.Kind == "map_to_index" || prev.Kind == "array_to_append" || prev.Kind == "disjunction_as_options" || prev.Kind == "struct_fields_as_arguments" || prev.Kind == "duplicate") {
					for _, bv := range bvs {
						if bv.Pkg != p.Pkgs[len(p.Pkgs)-1] {
							continue
						}
						for _, ov := range bv.Options {
							if ov.NArgs >= 2 || (prev.Kind != "map_to_index" && ov.NArgs >= 1 && strings.Contains(strings.ToLower(prev.SelA+strings.Join(prev.SelOpts, ",")), strings.ToLower(ov.Name))) {
								var names []string
								for k := 0; k < ov.NArgs; k++ {
									names = append(names, fmt.Sprintf("renamed%d", k))
								}
								pkg = bv.Pkg
								rs = RuleSpec{Scope: "option", Kind: Pick(regen, []string{"rename_arguments", "rename_arguments", "duplicate", "rename", "unfold_boolean", "unfold_boolean", "array_to_append", "add_comments"}), SelKind: "by_builder", SelA: bv.Name + "." + ov.Name, Names: names, As: ov.Name + "Again",
									TrueAs: ov.Name + "On", FalseAs: ov.Name + "Off", Comments: []string{"follow-up comment"}}
							}
						}
					}
				}
			}
			// a builder that got a factory is worth copying: "duplicate yields an
			// identical copy (defaults and factories included)"
			for _, bv := range bvs {
				if bv.Factories > 0 && regen.Chance(1, 2) {
					pkg = bv.Pkg
					rs = RuleSpec{Scope: "builder", Kind: "duplicate", SelKind: "by_name", SelA: bv.Name, As: bv.Name + "Copy"}
					break
				}
			}
			// after a builder was renamed, a consistent merge_into whose path or source goes
			// through it: references are followed by object, whatever the builders are called
			if len(p.Rules) > 0 && p.Rules[len(p.Rules)-1].Scope == "builder" && p.Rules[len(p.Rules)-1].Kind == "rename" && regen.Chance(2, 3) {
				for try := 0; try < 8; try++ {
					c := GenRuleSpec(regen, bvs, p.Pkgs[len(p.Pkgs)-1], "builder", "merge_into")
					if !c.Misconfigured && (c.Source == p.Rules[len(p.Rules)-1].As || try == 7) {
						rs, pkg = c, p.Pkgs[len(p.Pkgs)-1]
						break
					}
				}
			}
			// after a builder was renamed or duplicated, a consistent merge_into whose
			// *destination* is addressed by the name it now has (the rule selects by builder
			// name, not by the object built): the copy is a bystander, the renamed one the target
			if len(p.Rules) > 0 && p.Rules[len(p.Rules)-1].Scope == "builder" && (p.Rules[len(p.Rules)-1].Kind == "rename" || p.Rules[len(p.Rules)-1].Kind == "duplicate") && regen.Chance(1, 2) {
				last := p.Rules[len(p.Rules)-1]
				for try := 0; try < 24; try++ {
					c := GenRuleSpec(regen, bvs, p.Pkgs[len(p.Pkgs)-1], "builder", "merge_into")
					if c.Misconfigured {
						continue
					}
					hit := c.SelA == last.As
					if last.Kind == "duplicate" && !hit {
						for _, bv := range bvs {
							if bv.Name == last.As && bv.Pkg == p.Pkgs[len(p.Pkgs)-1] {
								for _, o := range bvs {
									if o.Pkg == bv.Pkg && o.Object == bv.Object && o.Name == c.SelA && o.Name != bv.Name {
										hit = true
									}
								}
							}
						}
					}
					if hit {
						rs, pkg = c, p.Pkgs[len(p.Pkgs)-1]
						ctx.Count("merge_into towards a renamed or duplicated destination", 1)
						break
					}
				}
			}
			// composed builders live in the plugin's package but build the core object:
			// the selectors that look at the schema of a builder meet them after a compose
			if len(p.Rules) > 0 && p.Rules[len(p.Rules)-1].Kind == "compose" && regen.Chance(1, 2) {
				prev := p.Rules[len(p.Rules)-1]
				pkg = p.Pkgs[len(p.Pkgs)-1]
				rs = RuleSpec{Scope: "builder", Kind: Pick(regen, []string{"omit", "rename", "properties", "duplicate"}), SelKind: "by_variant", SelA: prev.SelA,
					As: "AfterCompose", Props: []FieldSpec{{Name: "someBuilderProp", T: &TypeSpec{K: "string"}}}}
			}
			if p.Chain != "" {
				for _, bv := range bvs {
					if bv.Name != "Thing" {
						continue
					}
					// the option of that name, else whatever the previous rules made of it
					target := ""
					for _, ov := range bv.Options {
						if ov.Name == p.Chain {
							target = ov.Name
						}
					}
					if target == "" {
						for _, ov := range bv.Options {
							if strings.Contains(strings.ToLower(ov.Name), strings.ToLower(p.Chain[:3])) {
								target = ov.Name
							}
						}
					}
					if target == "" {
						break
					}
					pkg = bv.Pkg
					kindOfRule := Pick(regen, optionRuleKinds)
					if regen.Chance(2, 3) {
						// a rule that has something to act on, given what the option takes now
						var fit []string
						for _, ov := range bv.Options {
							if ov.Name != target {
								continue
							}
							for _, k := range []ast.Kind{ov.ArgKind, ov.LastKind} {
								switch k {
								case ast.KindMap:
									fit = append(fit, "map_to_index")
								case ast.KindArray:
									fit = append(fit, "array_to_append")
								case ast.KindDisjunction:
									fit = append(fit, "disjunction_as_options")
								case ast.KindRef, ast.KindStruct:
									fit = append(fit, "struct_fields_as_arguments", "struct_fields_as_options", "disjunction_as_options")
								}
							}
							if ov.Bool || ov.LastBool {
								fit = append(fit, "unfold_boolean")
							}
							if ov.NArgs > 0 {
								fit = append(fit, "rename_arguments")
							}
						}
						if len(fit) > 0 {
							kindOfRule = Pick(regen, fit)
						}
					}
					rs = GenRuleSpec(regen, bvs, pkg, "option", kindOfRule)
					rs.SelKind, rs.SelA, rs.SelOpts = "by_builder", "Thing."+target, nil
					if rs.Kind == "disjunction_as_options" {
						// the argument that holds the union: the last one (after map_to_index it is the second)
						for _, ov := range bv.Options {
							if ov.Name == target && ov.NArgs > 0 {
								rs.Index = ov.NArgs - 1
							}
						}
					}
				}
			}
			// a consistent merge_into whose source has a homonym under case folding earlier in
			// the list of builders: this step renames an earlier builder to a case variant of
			// the source's name, the merge itself is the next step (sources are looked up by
			// exact name)
			if pendingRule != nil {
				rs, pkg = *pendingRule, pendingPkg
				pendingRule = nil
			} else if sr := regen.Side("merge-source-homonym"); rs.Scope == "builder" && rs.Kind == "merge_into" && !rs.Misconfigured && sr.Chance(1, 2) && i+1 < n {
				for _, bv := range bvs {
					if bv.Pkg != pkg {
						continue
					}
					if bv.Name == rs.Source || bv.Name == rs.SelA {
						break // only a builder that comes before both is of interest
					}
					variant := strings.ToUpper(rs.Source)
					if variant == rs.Source {
						variant = strings.ToLower(rs.Source)
					}
					if variant == rs.Source || len(bv.Options) == 0 {
						continue
					}
					merge, mergePkg := rs, pkg
					pendingRule, pendingPkg = &merge, mergePkg
					rs = RuleSpec{Scope: "builder", Kind: "rename", SelKind: "by_name", SelA: bv.Name, As: variant}
					ctx.Count("merge_into whose source has a case-folded homonym", 1)
					break
				}
			}
			rs.Lang = "all"
			if regen.Chance(2, 5) {
				rs.Lang = p.Lang
			}
			p.Rules = append(p.Rules, rs)
			p.Pkgs = append(p.Pkgs, pkg)
		} else {
			rs, pkg = p.Rules[i], p.Pkgs[i]
		}
		file := filepath.Join(veneerDir, fmt.Sprintf("step%d.yaml", i))
		must(os.WriteFile(file, []byte(VeneerFileYAML("all", pkg, []RuleSpec{rs})), 0o644))
		before := append(ast.Builders(nil), builders...)
		beforeSnap := toJSON(toGeneric(before))
		var after ast.Builders
		CurrentDesc.Store("C17 rule " + rs.Scope + ":" + rs.Kind)
		ex := Simulate(p.Sched, nil, pipelineMaxTicks, func() error {
			rw, err := cogyaml.NewVeneersLoader().RewriterFrom([]string{file}, rewrite.Config{})
			if err != nil {
				return err
			}
			after, err = rw.ApplyTo(schemas, builders, p.Lang)
			return err
		})
		ctx.Account(ex)
		res.Execs++
		kind := rs.Scope + ":" + rs.Kind
		if ex.Panic != nil {
			ctx.Count("rule_panicked "+kind, 1)
			return out
		}
		if ex.Err != nil {
			ctx.Count("rule_error "+kind, 1)
			// a merge_into whose path was drawn along reference fields of the builders at hand,
			// towards the builder of the object found there, has no reason to fail on its path
			if rs.Kind == "merge_into" && !rs.Misconfigured && rs.PathDirect && (strings.Contains(ex.Err.Error(), "could not make path") || strings.Contains(ex.Err.Error(), "could not be resolved")) {
				out["unexpected-error|"+kind] = fmt.Sprintf("step %d %s %s: a consistent rule fails: %s", i, kind, truncate(toJSON(rs), 200), truncate(ex.Err.Error(), 200))
				return out
			}
			if ctx.Opt["errtext"] != "" {
				ctx.Count("rule_error_text "+kind+" misconfigured="+fmt.Sprint(rs.Misconfigured)+": "+truncate(digits.ReplaceAllString(ex.Err.Error(), "N"), 90), 1)
			}
			// a failed rule leaves the history where it was - unless it modified its input on the way
			if toJSON(toGeneric(before)) != beforeSnap {
				var prev ast.Builders
				_ = json.Unmarshal([]byte(beforeSnap), &prev)
				if prev != nil {
					builders = prev
				}
			}
			continue
		}
		ctx.Count("rule_applied "+kind, 1)
		if rs.Kind == "merge_into" && !rs.Misconfigured {
			ctx.Count(fmt.Sprintf("merge_into consistent, %d path segments", strings.Count(rs.Path, ".")+1), 1)
		}
		// the comparison baseline is the snapshot (a rule may write through its input)
		var prev ast.Builders
		if err := json.Unmarshal([]byte(beforeSnap), &prev); err != nil {
			prev = before
		}
		if k, wtxt := wellTyped(schemas, after); k != "" {
			key := "welltyped|" + kind + "|" + k
			if rs.Misconfigured {
				key += "|misconfigured"
			}
			if _, dup := out[key]; !dup {
				out[key] = fmt.Sprintf("step %d %s %s: %s", i, kind, truncate(toJSON(rs), 160), wtxt)
			}
			// later rules would be blamed for the same ill-typed builder: the history stops here
			return out
		} else if k, wtxt := judgeRule(schemas, rs, pkg, prev, after); k != "" {
			key := k + "|" + kind
			if _, dup := out[key]; !dup {
				out[key] = fmt.Sprintf("step %d %s %s: %s", i, kind, truncate(toJSON(rs), 160), wtxt)
			}
		}
		builders = after
		if len(builders) == 0 {
			break
		}
	}
	return out
}

var digits = regexp.MustCompile(`[0-9]+`)

func init() {
	Register(&Property{
		ID: "C17",
		Setup: func(ctx *Ctx) {
			ctx.Corpus = LoadCorpus(ctx.RepoRoot)
		},
		RunCase: func(ctx *Ctx, seed uint64, idx int) *CaseResult {
			r := NewRand(seed)
			dir := filepath.Join(ctx.Dirs.Root, "case")
			defer os.RemoveAll(dir)
			res := &CaseResult{}
			w := GenWorkload(r, ctx.Corpus, 1, GenOpts{NoAllOf: r.Chance(2, 3)})
			p := &c17Payload{W: w, Lang: Pick(r, []string{"go", "typescript", "python", "java", "php"}),
				Sched: simrt.Schedule{Default: Pick(r, []simrt.Policy{simrt.Canonical, simrt.Reverse, simrt.Shuffle}), Seed: r.U64()}}
			if idx%8 == 3 {
				// chains of option rules on one option of a struct that has a field of every shape
				sr := r.Side("shapes-scenario")
				p.W = GenShapesWorkload(sr)
				p.Chain = Pick(sr, []string{"title", "enabled", "labels", "switches", "flags", "names", "inners", "byName", "inner", "either", "scalarOrNull", "eitherByName", "eitherByName", "eithers"})
			}
			if idx%8 == 5 {
				// the composition scenario, its compose rule being the first step of the history
				sr := r.Side("compose-scenario")
				cw := GenComposeWorkload(sr)
				delete(cw.Files, "cfg/veneers/compose.yaml")
				cw.VeneerDirs = nil
				p.W = cw
				first := RuleSpec{Scope: "builder", Kind: "compose", SelKind: "by_variant", SelA: "panelcfg", Source: "dashboard.Panel", FieldName: "type",
					Map: [][2]string{{"Options", "options"}, {"FieldConfig", "fieldConfig.defaults.custom"}}, Flag: sr.Bool(), Lang: "all"}
				if sr.Bool() {
					first.As = "Panel"
				}
				p.Rules, p.Pkgs = []RuleSpec{first}, []string{"dashboard"}
			}
			found := c17Check(ctx, res, dir, p, r.Fork("rules"))
			var kinds []string
			for _, rs := range p.Rules {
				kinds = append(kinds, rs.Scope+":"+rs.Kind)
			}
			if len(p.Rules) > 0 {
				res.Nontrivial = append(res.Nontrivial, ShaStr(w.Fingerprint()+p.Lang+JSONHash(p.Rules)))
			}
			res.Sample = map[string]any{"workload": w.Name, "language": p.Lang, "history": kinds, "violations": len(found)}
			for _, k := range SortedKeys(found) {
				pp := *p
				for i := 0; i < len(pp.Rules); i++ {
					c := pp
					c.Rules = append(append([]RuleSpec(nil), pp.Rules[:i]...), pp.Rules[i+1:]...)
					c.Pkgs = append(append([]string(nil), pp.Pkgs[:i]...), pp.Pkgs[i+1:]...)
					if _, ok := c17Check(ctx, res, dir, &c, nil)[k]; ok {
						pp = c
						i--
					}
				}
				what := found[k]
				if again, ok := c17Check(ctx, res, dir, &pp, nil)[k]; ok {
					what = again
				}
				res.Violations = append(res.Violations, Violation{Key: k, What: what, Payload: pp})
			}
			return res
		},
		Replay: func(ctx *Ctx, payload json.RawMessage) (string, string) {
			var p c17Payload
			must(json.Unmarshal(payload, &p))
			dir := filepath.Join(ctx.Dirs.Root, "replay")
			defer os.RemoveAll(dir)
			found := c17Check(ctx, &CaseResult{}, dir, &p, nil)
			if v, ok := found[ctx.Opt["expect"]]; ok {
				return ctx.Opt["expect"], v
			}
			for _, k := range SortedKeys(found) {
				return k, found[k]
			}
			return "", ""
		},
	})
}

var _ = sort.Strings
