package zzverif

import (
	"github.com/grafana/cog/internal/ast/compiler"
	"encoding/json"
	"fmt"
	"os"
	"path/filepath"
	"reflect"
	"sort"
	"strings"

	"github.com/grafana/cog/internal/ast"
	"github.com/grafana/cog/internal/languages"
	"verif.local/simrt"
)

// C18 — copies of the IR are faithful (E) and share no typed mutable structure (D).

type copyFinding struct {
	Key  string
	What string
}

// judgeCopy applies (E) and (D) to one copy event.
func judgeCopy(ctx *Ctx, routine string, orig, cp reflect.Value) []copyFinding {
	var out []copyFinding
	o, c := orig, cp
	if o.Type() != c.Type() && c.Type().ConvertibleTo(o.Type()) {
		c = c.Convert(o.Type())
	}
	if d := copyDiff(o, c, "", 0); d != "" {
		field := normPath(strings.SplitN(d, ":", 2)[0])
		out = append(out, copyFinding{"copy|" + routine + "|unequal:" + field, routine + " result differs from its receiver at " + d})
	}
	typed, opaque := sharedBetween(o, c)
	if len(typed) > 0 {
		first := topField(shortestFirst(typed)[0])
		out = append(out, copyFinding{"copy|" + routine + "|shared:" + first, fmt.Sprintf("%s result shares mutable structure with its receiver at %v", routine, firstN(shortestFirst(typed), 5))})
	}
	for _, p := range opaque {
		ctx.Count("unexploited_sharing "+routine+p, 1)
	}
	return out
}

// topField keeps the outermost declared field of a path (".For.Type.Ref" -> ".For",
// "[].EntryPointType.Hints" -> "[].EntryPointType"): one key per forgotten field.
func topField(p string) string {
	rest := strings.TrimPrefix(p, "[]")
	prefix := p[:len(p)-len(rest)]
	if i := strings.Index(rest[1:], "."); i >= 0 && strings.HasPrefix(rest, ".") {
		rest = rest[:i+1]
	}
	if i := strings.Index(rest, "["); i >= 0 {
		rest = rest[:i]
	}
	return prefix + rest
}

func routineName(t reflect.Type) string {
	for t.Kind() == reflect.Ptr {
		t = t.Elem()
	}
	n := t.Name()
	if i := strings.Index(n, "["); i > 0 {
		n = n[:i]
	}
	pk := t.PkgPath()
	pk = pk[strings.LastIndex(pk, "/")+1:]
	return pk + "." + n + ".DeepCopy"
}

// walkAndCopy visits every addressable node of the graph below v and, where the
// node's type has a DeepCopy method, calls it and judges the result.
func walkAndCopy(ctx *Ctx, v reflect.Value, seen map[uintptr]bool, events *int, findings map[string]copyFinding, depth int) {
	if depth > 60 || !v.IsValid() {
		return
	}
	try := func(rv reflect.Value) {
		if !rv.CanAddr() {
			return
		}
		m := rv.Addr().MethodByName("DeepCopy")
		if !m.IsValid() || m.Type().NumIn() != 0 || m.Type().NumOut() != 1 {
			return
		}
		res := m.Call(nil)
		*events++
		ctx.Count("copy_events "+routineName(rv.Type()), 1)
		for _, f := range judgeCopy(ctx, routineName(rv.Type()), rv, res[0]) {
			if _, dup := findings[f.Key]; !dup {
				findings[f.Key] = f
			}
		}
	}
	switch v.Kind() {
	case reflect.Ptr:
		if v.IsNil() || seen[v.Pointer()] {
			return
		}
		seen[v.Pointer()] = true
		walkAndCopy(ctx, v.Elem(), seen, events, findings, depth+1)
	case reflect.Interface:
		if !v.IsNil() {
			// payloads of `any` fields are not IR nodes
			return
		}
	case reflect.Struct:
		try(v)
		for i := 0; i < v.NumField(); i++ {
			if v.Type().Field(i).IsExported() {
				walkAndCopy(ctx, v.Field(i), seen, events, findings, depth+1)
			}
		}
		// ordered maps keep their content in unexported fields: go through Values()
		if v.CanAddr() {
			if m := v.Addr().MethodByName("Values"); m.IsValid() && m.Type().NumIn() == 0 && m.Type().NumOut() == 1 {
				vals := m.Call(nil)[0]
				if vals.Kind() == reflect.Slice {
					for i := 0; i < vals.Len(); i++ {
						walkAndCopy(ctx, vals.Index(i), seen, events, findings, depth+1)
					}
				}
			}
		}
	case reflect.Slice:
		try(v)
		for i := 0; i < v.Len(); i++ {
			walkAndCopy(ctx, v.Index(i), seen, events, findings, depth+1)
		}
	case reflect.Map:
		try(v)
	}
}

type c18Payload struct {
	Mode    string    `json:"mode"`              // fixture | pipeline | synth | duprule
	Seed    uint64    `json:"seed,omitempty"`    // synth, duprule: the value the synthetic IR is drawn from
	Root    string    `json:"root,omitempty"`    // synth: which ast type is the root
	Fixture string    `json:"fixture,omitempty"` // path below the repository root
	W       *Workload `json:"workload,omitempty"`
	Key     string    `json:"key"`
}

func listFixtures(root string) []string {
	var out []string
	for _, pat := range []string{"testdata/jennies/rawtypes/*/ir.json", "testdata/jennies/builders/*/builders_context.json"} {
		m, _ := filepath.Glob(filepath.Join(root, pat))
		sort.Strings(m)
		for _, p := range m {
			rel, _ := filepath.Rel(root, p)
			out = append(out, rel)
		}
	}
	return out
}

func loadFixture(root, rel string) (any, error) {
	b, err := os.ReadFile(filepath.Join(root, rel))
	if err != nil {
		return nil, err
	}
	if strings.HasSuffix(rel, "ir.json") {
		s := &ast.Schema{}
		if err := json.Unmarshal(b, s); err != nil {
			return nil, err
		}
		schemas := ast.Schemas{s}
		return &schemas, nil
	}
	c := &languages.Context{}
	if err := json.Unmarshal(b, c); err != nil {
		return nil, err
	}
	return c, nil
}

func c18Fixture(ctx *Ctx, rel string) (map[string]copyFinding, int, error) {
	v, err := loadFixture(ctx.RepoRoot, rel)
	if err != nil {
		return nil, 0, err
	}
	findings := map[string]copyFinding{}
	events := 0
	ex := Simulate(simrt.Schedule{Default: simrt.Canonical}, nil, pipelineMaxTicks, func() error {
		walkAndCopy(ctx, reflect.ValueOf(v), map[uintptr]bool{}, &events, findings, 0)
		return nil
	})
	ctx.Account(ex)
	if ex.Panic != nil {
		findings["copy|panic|"+ex.Panic.Key()] = copyFinding{"copy|panic|" + ex.Panic.Key(), "DeepCopy panicked: " + ex.Panic.Value}
	}
	return findings, events, nil
}

// c18Pipeline runs a pipeline with the copy monitor installed: every outermost
// DeepCopy call of the real run is judged, and the IR the run produced is then
// walked node by node.
func c18Pipeline(ctx *Ctx, dir string, w *Workload, sched simrt.Schedule) (map[string]copyFinding, int) {
	findings := map[string]copyFinding{}
	events := 0
	simrt.OnCopy = func(orig, cp any, site string) {
		events++
		rt := routineName(reflect.TypeOf(orig))
		ctx.Count("copy_events "+rt, 1)
		for _, f := range judgeCopy(ctx, rt, reflect.ValueOf(orig).Elem(), reflect.ValueOf(cp).Elem()) {
			if _, dup := findings[f.Key]; !dup {
				findings[f.Key] = f
			}
		}
	}
	defer func() { simrt.OnCopy = nil }()
	var contexts []languages.Context
	_, _, ex := execWorkload(dir, w, sched, nil, RunOpts{Generate: true, Inspect: true,
		OnContext: func(_ string, c languages.Context) { contexts = append(contexts, c) }})
	ctx.Account(ex)
	simrt.OnCopy = nil
	ex2 := Simulate(simrt.Schedule{Default: simrt.Canonical}, nil, pipelineMaxTicks, func() error {
		for i := range contexts {
			walkAndCopy(ctx, reflect.ValueOf(&contexts[i]), map[uintptr]bool{}, &events, findings, 0)
			// "before every transformation chain": the empty chain too (an input without
			// transformations, a pipeline without common passes) hands back a copy
			in := ast.Schemas(contexts[i].Schemas)
			out, err := compiler.Passes{}.Process(in)
			if err == nil {
				events++
				type chainIO struct{ Schemas ast.Schemas }
				for _, f := range judgeCopy(ctx, "compiler.Passes{}.Process", reflect.ValueOf(&chainIO{in}).Elem(), reflect.ValueOf(&chainIO{out}).Elem()) {
					if _, dup := findings[f.Key]; !dup {
						findings[f.Key] = f
					}
				}
			}
		}
		return nil
	})
	ctx.Account(ex2)
	return findings, events
}

func init() {
	var fixtures []string
	Register(&Property{
		ID: "C18",
		Setup: func(ctx *Ctx) {
			ctx.Corpus = LoadCorpus(ctx.RepoRoot)
			fixtures = listFixtures(ctx.RepoRoot)
		},
		RunCase: func(ctx *Ctx, seed uint64, idx int) *CaseResult {
			r := NewRand(seed)
			res := &CaseResult{Execs: 1}
			var findings map[string]copyFinding
			var events int
			var payload c18Payload
			if idx < len(fixtures) {
				rel := fixtures[idx]
				f, n, err := c18Fixture(ctx, rel)
				if err != nil {
					ctx.Count("fixture_load_errors", 1)
					return res
				}
				findings, events = f, n
				payload = c18Payload{Mode: "fixture", Fixture: rel}
				res.Sample = map[string]any{"mode": "fixture", "fixture": rel, "copy_events": n}
			} else if idx%4 == 1 || idx%4 == 2 {
				sd := r.Side("synth").U64()
				root := synthRoots[(idx/4)%len(synthRoots)]
				findings, events = c18Synth(ctx, sd, root)
				payload = c18Payload{Mode: "synth", Seed: sd, Root: root}
				res.Sample = map[string]any{"mode": "synth", "root": root, "copy_events": events}
			} else if idx%4 == 3 {
				sd := r.Side("duprule").U64()
				findings, events = c18DupRule(ctx, sd)
				payload = c18Payload{Mode: "duprule", Seed: sd}
				res.Sample = map[string]any{"mode": "duprule", "copy_events": events}
			} else {
				dir := filepath.Join(ctx.Dirs.Root, "case")
				defer os.RemoveAll(dir)
				w := GenWorkload(r, ctx.Corpus, 3, GenOpts{NoAllOf: r.Chance(1, 2)})
				w.Builders = true
				w.Converters = r.Bool()
				EnrichWorkload(r.Fork("enrich"), w, dir)
				sched := simrt.Schedule{Default: Pick(r, []simrt.Policy{simrt.Canonical, simrt.Shuffle}), Seed: r.U64()}
				findings, events = c18Pipeline(ctx, dir, w, sched)
				res.Execs = 2
				payload = c18Payload{Mode: "pipeline", W: w}
				res.Sample = map[string]any{"mode": "pipeline", "workload": w.Name, "copy_events": events}
			}
			ctx.Count("copy_events_total", events)
			if events > 0 {
				res.Nontrivial = append(res.Nontrivial, ShaStr(fmt.Sprint(payload.Mode, payload.Fixture, idx)))
			}
			for _, k := range SortedKeys(findings) {
				p := payload
				p.Key = k
				res.Violations = append(res.Violations, Violation{Key: k, What: findings[k].What, Payload: p})
			}
			return res
		},
		Replay: func(ctx *Ctx, payload json.RawMessage) (string, string) {
			var p c18Payload
			must(json.Unmarshal(payload, &p))
			var findings map[string]copyFinding
			if p.Mode == "fixture" {
				findings, _, _ = c18Fixture(ctx, p.Fixture)
			} else if p.Mode == "synth" {
				findings, _ = c18Synth(ctx, p.Seed, p.Root)
			} else if p.Mode == "duprule" {
				findings, _ = c18DupRule(ctx, p.Seed)
			} else {
				dir := filepath.Join(ctx.Dirs.Root, "replay")
				defer os.RemoveAll(dir)
				findings, _ = c18Pipeline(ctx, dir, p.W, simrt.Schedule{Default: simrt.Canonical})
			}
			if f, ok := findings[p.Key]; ok {
				return f.Key, f.What
			}
			return "", ""
		},
	})
}
