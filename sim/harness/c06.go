package zzverif

import (
	"github.com/grafana/cog/internal/tools"
	"encoding/json"
	"fmt"
	"os"
	"path/filepath"
	"regexp"
	"strings"

	"github.com/grafana/cog/internal/ast"
	"github.com/grafana/cog/internal/languages"
	"verif.local/simrt"
)

// C06 — after its built-in chain, each language receives the normal form its
// generators assume. The predicates are a transcription of the statement.

type nfViolation struct {
	Pred  string
	Where string
	Cause string // the pass that last touched the offending type, else the pass that created the enclosing object, else "input"
}

type nfChecker struct {
	lang    string
	out     []nfViolation
	creator string          // of the object being walked
	all     map[string]bool // every position visited (when non-nil)
	kinds   map[string]string // kind of the type at every position visited (when non-nil)
}

var bracketArgs = regexp.MustCompile(`\[.*$`)

func trailName(trail []string) string {
	if len(trail) == 0 {
		return ""
	}
	return bracketArgs.ReplaceAllString(trail[len(trail)-1], "")
}

func (c *nfChecker) add(pred, where string, t ast.Type) {
	cause := trailName(t.PassesTrail)
	if cause == "" {
		cause = c.creator
	}
	if cause == "" {
		cause = "input"
	}
	c.out = append(c.out, nfViolation{pred, where, cause})
}

func in(s string, set ...string) bool {
	for _, x := range set {
		if s == x {
			return true
		}
	}
	return false
}

// typePos walks one type position. top: the type is an object's top-level
// type; inAllOf: the type is a branch of an intersection.
func (c *nfChecker) typePos(t ast.Type, where string, top bool, inAllOf bool, depth int) {
	if depth > 80 {
		return
	}
	if c.all != nil {
		c.all[where] = true
	}
	if c.kinds != nil {
		c.kinds[where] = string(t.Kind)
	}
	switch t.Kind {
	case ast.KindDisjunction:
		if in(c.lang, "go", "java") {
			c.add("no-union", where, t)
		}
		if t.Disjunction != nil {
			if in(c.lang, "go", "java", "php", "python") && len(t.Disjunction.Branches) == 2 && t.Disjunction.Branches.HasNullType() {
				c.add("no-T-or-null-union", where, t)
			}
			for i, b := range t.Disjunction.Branches {
				c.typePos(b, fmt.Sprintf("%s|%d", where, i), false, false, depth+1)
			}
		}
	case ast.KindEnum:
		if !top && in(c.lang, "go", "java", "php") {
			c.add("enum-is-named-object", where, t)
		}
	case ast.KindStruct:
		if !top && !inAllOf && in(c.lang, "go", "java", "php", "python") {
			c.add("struct-is-named-object", where, t)
		}
		if t.Struct != nil {
			for _, f := range t.Struct.Fields {
				if c.all != nil {
					c.all[where+"."+f.Name] = true
				}
				if !f.Required && !f.Type.Nullable && in(c.lang, "go", "java", "php", "python") {
					c.add("optional-field-is-nullable", where+"."+f.Name, f.Type)
				}
				c.typePos(f.Type, where+"."+f.Name, false, false, depth+1)
			}
		}
	case ast.KindArray:
		if t.Array != nil {
			c.typePos(t.Array.ValueType, where+"[]", false, false, depth+1)
		}
	case ast.KindMap:
		if t.Map != nil {
			c.typePos(t.Map.IndexType, where+"{key}", false, false, depth+1)
			c.typePos(t.Map.ValueType, where+"{}", false, false, depth+1)
		}
	case ast.KindIntersection:
		if t.Intersection != nil {
			for i, b := range t.Intersection.Branches {
				c.typePos(b, fmt.Sprintf("%s&%d", where, i), false, true, depth+1)
			}
		}
	}
}

var numericName = regexp.MustCompile(`^[-+]?[0-9]+$`)
var notAlnum = regexp.MustCompile(`[^a-z0-9]`)

func squash(s string) string { return notAlnum.ReplaceAllString(strings.ToLower(s), "") }

func (c *nfChecker) enumNames(objName string, t ast.Type, where string) {
	if t.Kind != ast.KindEnum || t.Enum == nil {
		return
	}
	for _, m := range t.Enum.Values {
		switch c.lang {
		case "go":
			// "VariableRefresh enum(Never) becomes VariableRefreshNever": the prefix is the
			// enum's name as Go spells it, so that the member is an exported identifier
			// of its own (the jenny declares and uses members under that name)
			if !strings.HasPrefix(m.Name, tools.UpperCamelCase(objName)) {
				c.add("go-enum-member-prefixed", where+"#"+m.Name, t)
			}
		case "typescript", "python":
			if numericName.MatchString(m.Name) {
				c.add("enum-member-not-numeric", where+"#"+m.Name, t)
			}
		case "php":
			if m.Name == "" || m.Name[0] == '-' || m.Name[0] == '+' {
				c.add("php-enum-member-sanitised", where+"#"+m.Name, t)
			}
		}
	}
}

// blameNormalForm re-applies the chain pass by pass (attribution only; the
// verdict comes from the real ContextForLanguage) and says, for each final
// violation, how it came about:
//
//	broken-by:<pass>           the predicate held at that position after some pass and <pass> broke it
//	created-violating-by:<pass> the position first appears after <pass>, already violating, and stays so
//	never-established          the position exists from the start and the predicate never holds
func blameNormalForm(lang languages.Language, schemas ast.Schemas, final []nfViolation) map[string]string {
	out := map[string]string{}
	defer func() { _ = recover() }()
	type snap struct {
		viol  map[string]bool
		all   map[string]bool
		kinds map[string]string
		name  string
	}
	kindAt := func(s snap, where string) string {
		if k := s.kinds[where]; k != "" {
			return k
		}
		return "-"
	}
	take := func(name string, s ast.Schemas) snap {
		c := &nfChecker{lang: lang.Name(), all: map[string]bool{}, kinds: map[string]string{}}
		c.run(s)
		v := map[string]bool{}
		for _, x := range c.out {
			v[x.Pred+"@"+x.Where] = true
		}
		return snap{v, c.all, c.kinds, name}
	}
	var cur ast.Schemas = schemas.DeepCopy()
	snaps := []snap{take("input", cur)}
	for _, pass := range lang.CompilerPasses() {
		next, err := pass.Process(cur)
		if err != nil {
			return out
		}
		name := fmt.Sprintf("%T", pass)
		snaps = append(snaps, take(name[strings.LastIndex(name, ".")+1:], next))
		cur = next
	}
	for _, v := range final {
		id := v.Pred + "@" + v.Where
		cause := "unknown"
		// first snapshot in which the position exists
		j := -1
		for i, s := range snaps {
			if s.all[v.Where] {
				j = i
				break
			}
		}
		if j >= 0 {
			lastOK := -1
			for i := j; i < len(snaps); i++ {
				if !snaps[i].viol[id] {
					lastOK = i
				}
			}
			switch {
			case lastOK >= 0 && lastOK+1 < len(snaps):
				// with what the pass turned the type at that position from and into:
				// one pass can break a predicate in several unrelated ways
				// (only what it turned it into: the pair from>to multiplied the keys of one defect)
				cause = "broken-by:" + snaps[lastOK+1].name + "[>" + kindAt(snaps[lastOK+1], v.Where) + "]"
			case lastOK >= 0:
				cause = "unknown" // holds at the end of the replica: the real chain differs
			case j == 0:
				cause = "never-established[" + kindAt(snaps[len(snaps)-1], v.Where) + "]"
			default:
				cause = "created-violating-by:" + snaps[j].name + "[" + kindAt(snaps[j], v.Where) + "]"
			}
		}
		out[id] = cause
	}
	return out
}

// NormalForm evaluates every predicate of the statement on the schemas a
// language's jennies are about to receive.
func NormalForm(lang string, schemas ast.Schemas) []nfViolation {
	c := &nfChecker{lang: lang}
	c.run(schemas)
	return c.out
}

func (c *nfChecker) run(schemas ast.Schemas) {
	for _, s := range schemas {
		if s == nil || s.Objects == nil {
			continue
		}
		for _, o := range s.Objects.Values() {
			where := s.Package + "." + o.Name
			c.creator = ""
			if len(o.PassesTrail) > 0 {
				c.creator = "object-from:" + bracketArgs.ReplaceAllString(o.PassesTrail[0], "")
			}
			c.typePos(o.Type, where, true, false, 0)
			c.enumNames(o.Name, o.Type, where)
		}
	}
}

type c06Payload struct {
	W     *Workload      `json:"workload"`
	Sched simrt.Schedule `json:"schedule"`
	Mode  string         `json:"mode"` // plain | nested
}

func c06Check(ctx *Ctx, res *CaseResult, dir string, p *c06Payload) map[string]string {
	out := map[string]string{}
	var loaded ast.Schemas
	var langs languages.Languages
	_, _, ex := execWorkload(dir, p.W, p.Sched, nil, RunOpts{Inspect: true,
		OnSchemas:   func(s ast.Schemas) { loaded = s },
		OnLanguages: func(l languages.Languages) { langs = l },
		OnContext: func(lang string, c languages.Context) {
			ctx.Count("chains_checked "+lang, 1)
			vs := NormalForm(lang, c.Schemas)
			if len(vs) == 0 {
				return
			}
			blame := map[string]string{}
			if langs[lang] != nil && loaded != nil {
				blame = blameNormalForm(langs[lang], loaded, vs)
			}
			for _, v := range vs {
				cause := blame[v.Pred+"@"+v.Where]
				if cause == "" {
					cause = "unknown"
				}
				k := "normalform|" + p.Mode + "|" + lang + "|" + v.Pred + "|" + cause
				if _, dup := out[k]; !dup {
					out[k] = fmt.Sprintf("after the %s chain: %s violated at %s (%s; workload %s)", lang, v.Pred, v.Where, cause, p.W.Name)
				}
			}
		}})
	ctx.Account(ex)
	res.Execs++
	return out
}

func init() {
	Register(&Property{
		ID: "C06",
		Setup: func(ctx *Ctx) {
			ctx.Corpus = LoadCorpus(ctx.RepoRoot)
		},
		RunCase: func(ctx *Ctx, seed uint64, idx int) *CaseResult {
			r := NewRand(seed)
			dir := filepath.Join(ctx.Dirs.Root, "case")
			defer os.RemoveAll(dir)
			res := &CaseResult{}
			mode := "plain"
			var w *Workload
			if idx%2 == 0 {
				// generated inputs only, flat unions
				w = GenWorkload(r, nil, 1, GenOpts{Plain: true})
			} else {
				mode = "nested"
				w = GenWorkload(r, ctx.Corpus, 1, GenOpts{NoAllOf: r.Chance(1, 2), Wild: r.Chance(1, 6)})
			}
			// all five target languages of the statement, every time
			w.Languages = nil
			for _, l := range []string{"go", "java", "php", "python", "typescript"} {
				w.Languages = append(w.Languages, LangSpec{Name: l, Flags: map[string]string{}})
			}
			w.Builders = false
			if mode == "nested" && r.Chance(1, 3) {
				EnrichWorkload(r.Fork("enrich"), w, dir)
				w.VeneerDirs, w.RepoTpl = nil, ""
			}
			if sr := r.Side("hand-written"); mode == "nested" && sr.Chance(1, 6) {
				AddHandWrittenShapes(sr, w)
			}
			p := &c06Payload{W: w, Mode: mode, Sched: simrt.Schedule{Default: Pick(r, []simrt.Policy{simrt.Canonical, simrt.Reverse, simrt.Shuffle}), Seed: r.U64()}}
			res.Nontrivial = append(res.Nontrivial, ShaStr(w.Fingerprint()))
			found := c06Check(ctx, res, dir, p)
			res.Sample = map[string]any{"mode": mode, "workload": w.Name, "schedule": p.Sched.Default.String(), "violations": len(found)}
			for _, k := range SortedKeys(found) {
				pp := *p
				b := 8
				pp.W = shrinkWorkload(pp.W, func(c *Workload) bool {
					q := pp
					q.W = c
					_, ok := c06Check(ctx, res, dir, &q)[k]
					return ok
				}, &b)
				what := found[k]
				if again, ok := c06Check(ctx, res, dir, &pp)[k]; ok {
					what = again
				}
				res.Violations = append(res.Violations, Violation{Key: k, What: what, Payload: pp})
			}
			return res
		},
		Replay: func(ctx *Ctx, payload json.RawMessage) (string, string) {
			var p c06Payload
			must(json.Unmarshal(payload, &p))
			dir := filepath.Join(ctx.Dirs.Root, "replay")
			defer os.RemoveAll(dir)
			found := c06Check(ctx, &CaseResult{}, dir, &p)
			if v, ok := found[ctx.Opt["expect"]]; ok {
				return ctx.Opt["expect"], v
			}
			for _, k := range SortedKeys(found) {
				return k, found[k]
			}
			return "", ""
		},
	})
}
