package zzverif

import (
	"os"
	"path/filepath"
	"regexp"
	"sort"
	"strings"
)

// CorpusInput is one schema of the repository's own test data, ready to be
// placed in a workload.
type CorpusInput struct {
	Name  string
	Kind  string // jsonschema | openapi | cue
	Files map[string]string
	Spec  InputSpec
}

var pkgClause = regexp.MustCompile(`(?m)^package\s+\w+\s*$`)

func readDirFiles(dir string) map[string]string {
	out := map[string]string{}
	_ = filepath.WalkDir(dir, func(p string, d os.DirEntry, err error) error {
		if err != nil || d.IsDir() {
			return nil
		}
		b, err := os.ReadFile(p)
		if err != nil {
			return nil
		}
		rel, _ := filepath.Rel(dir, p)
		out[rel] = string(b)
		return nil
	})
	return out
}

func cuePkgName(name string) string {
	return strings.ReplaceAll(name, "-", "_")
}

// LoadCorpus reads testdata/{jsonschema,openapi,simplecue,schemas} below root.
func LoadCorpus(root string) []CorpusInput {
	var out []CorpusInput
	td := filepath.Join(root, "testdata")
	sub := func(d string) []string {
		es, _ := os.ReadDir(filepath.Join(td, d))
		var n []string
		for _, e := range es {
			if e.IsDir() {
				n = append(n, e.Name())
			}
		}
		sort.Strings(n)
		return n
	}
	for _, kind := range []string{"jsonschema", "openapi"} {
		for _, name := range sub(kind) {
			dir := filepath.Join(td, kind, name)
			files := readDirFiles(dir)
			ci := CorpusInput{Name: kind + "/" + name, Kind: kind, Files: map[string]string{}}
			base := "in/" + kind + "_" + name + "/"
			for rel, c := range files {
				if strings.HasPrefix(rel, "GenerateAST") {
					continue
				}
				ci.Files[base+rel] = c
			}
			if _, ok := ci.Files[base+"schema.json"]; !ok {
				continue
			}
			ci.Spec = InputSpec{Kind: kind, Path: base + "schema.json", Package: cuePkgName(name)}
			out = append(out, ci)
		}
	}
	for _, name := range sub("simplecue") {
		b, err := os.ReadFile(filepath.Join(td, "simplecue", name, "schema.cue"))
		if err != nil {
			continue
		}
		pkg := cuePkgName(name)
		src := string(b)
		if pkgClause.MatchString(src) {
			src = pkgClause.ReplaceAllString(src, "package "+pkg)
		} else {
			src = "package " + pkg + "\n\n" + src
		}
		base := "in/cue_" + name + "/" + pkg + "/"
		out = append(out, CorpusInput{
			Name: "simplecue/" + name, Kind: "cue",
			Files: map[string]string{base + "schema.cue": src},
			Spec:  InputSpec{Kind: "cue", Path: strings.TrimSuffix(base, "/"), Package: pkg},
		})
	}
	for _, name := range sub("schemas") {
		files := readDirFiles(filepath.Join(td, "schemas", name))
		base := "in/schemas_" + name + "/" + name + "/"
		ci := CorpusInput{Name: "schemas/" + name, Kind: "cue", Files: map[string]string{}}
		for rel, c := range files {
			ci.Files[base+rel] = c
		}
		ci.Spec = InputSpec{Kind: "cue", Path: strings.TrimSuffix(base, "/")}
		out = append(out, ci)
	}
	return out
}
