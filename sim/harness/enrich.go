package zzverif

import (
	"context"
	"fmt"
	"os"
	"strings"

	"github.com/grafana/cog/internal/ast"
	"github.com/grafana/cog/internal/codegen"
	"verif.local/simrt"
)

// dryLoad parses the workload's inputs (no transformations yet) inside a
// simulated run and returns the schemas, or nil when loading fails.
func dryLoad(dir string, w *Workload) ast.Schemas {
	_ = os.RemoveAll(dir)
	must(os.MkdirAll(dir, 0o755))
	cfg, err := w.Materialise(dir)
	must(err)
	var schemas ast.Schemas
	CurrentDesc.Store("dry-load " + w.Name)
	ex := Simulate(simrt.Schedule{Default: simrt.Canonical}, nil, pipelineMaxTicks, func() error {
		resetGlobals()
		p, err := codegen.PipelineFromFile(cfg, codegen.Parameters(w.ExtraParams()))
		if err != nil {
			return err
		}
		schemas, err = p.LoadSchemas(context.Background())
		return err
	})
	if ex.Panic != nil || ex.Err != nil {
		return nil
	}
	return schemas
}

// genPassFile draws a transformation file against the view.
func genPassFile(r *Rand, v *IRView, max int, withBuiltin bool) []PassSpec {
	n := 1 + r.Intn(max)
	var specs []PassSpec
	for i := 0; i < n; i++ {
		kind := Pick(r, configurablePasses)
		if withBuiltin && r.Chance(1, 5) {
			kind = Pick(r, builtinYamlPasses)
		}
		specs = append(specs, GenPassSpec(r, v, kind))
	}
	return specs
}

// EnrichWorkload adds transformation files, veneers, templates and
// language-level maps to w, targeting names that really exist in its IR.
func EnrichWorkload(r *Rand, w *Workload, scratch string) {
	schemas := dryLoad(scratch, w)
	if schemas == nil {
		return
	}
	view := ViewOf(schemas)
	if view.empty() {
		return
	}
	var notes []string
	if r.Chance(1, 2) {
		i := r.Intn(len(w.Inputs))
		path := fmt.Sprintf("cfg/input%d_passes.yaml", i)
		w.Files[path] = PassesFileYAML(genPassFile(r, view, 4, true))
		w.Inputs[i].Transformations = append(w.Inputs[i].Transformations, path)
		notes = append(notes, "input-passes")
	}
	if r.Chance(1, 2) {
		path := "cfg/common_passes.yaml"
		w.Files[path] = PassesFileYAML(genPassFile(r, view, 4, true))
		w.CommonPass = append(w.CommonPass, path)
		notes = append(notes, "common-passes")
	}
	// cross-package references: fields added to a struct of one package that refer
	// to objects of the others (the only way two generated packages get linked)
	if len(view.Pkgs) >= 2 && r.Chance(1, 3) {
		var host *PkgView
		var hostObj string
		for i := range view.Pkgs {
			for _, o := range view.Pkgs[i].Objects {
				if o.Kind == ast.KindStruct && host == nil {
					host, hostObj = &view.Pkgs[i], o.Name
				}
			}
		}
		if host != nil {
			ps := PassSpec{Kind: "add_fields", Obj: host.Name + "." + hostObj}
			for _, other := range view.Pkgs {
				if other.Name == host.Name || len(other.Objects) == 0 {
					continue
				}
				for k := 0; k < 2 && k < len(other.Objects); k++ {
					o := other.Objects[(k*7+r.Intn(3))%len(other.Objects)]
					ps.NewFields = append(ps.NewFields, FieldSpec{Name: fmt.Sprintf("foreign%s%d", other.Name, k), T: &TypeSpec{K: "ref", RefPkg: other.Name, RefName: o.Name}})
				}
			}
			if len(ps.NewFields) > 0 {
				path := "cfg/link_passes.yaml"
				w.Files[path] = PassesFileYAML([]PassSpec{ps})
				w.CommonPass = append(w.CommonPass, path)
				notes = append(notes, "cross-package-refs")
			}
		}
	}
	if w.Builders && r.Chance(2, 3) {
		// derived inside a simulated run: on odd IRs the generator itself may loop or recurse
		var bvs []BuilderView
		CurrentDesc.Store("enrich: derive builders for " + w.Name)
		ex := Simulate(simrt.Schedule{Default: simrt.Canonical}, nil, pipelineMaxTicks, func() error {
			builders := (&ast.BuilderGenerator{}).FromAST(schemas)
			bvs = BuildersViewOf(schemas, builders)
			return nil
		})
		if ex.Panic != nil {
			bvs = nil
		}
		if len(bvs) > 0 {
			dir := "cfg/veneers"
			nfiles := 1 + r.Intn(3)
			for i := 0; i < nfiles; i++ {
				lang := "all"
				if r.Chance(1, 3) && len(w.Languages) > 0 {
					lang = Pick(r, w.Languages).Name
				}
				pkg := Pick(r, bvs).Pkg
				var rules []RuleSpec
				nr := 1 + r.Intn(4)
				for j := 0; j < nr; j++ {
					if r.Chance(2, 5) {
						rules = append(rules, GenRuleSpec(r, bvs, pkg, "builder", Pick(r, builderRuleKinds)))
					} else {
						rules = append(rules, GenRuleSpec(r, bvs, pkg, "option", Pick(r, optionRuleKinds)))
					}
				}
				w.Files[fmt.Sprintf("%s/v%d.yaml", dir, i)] = VeneerFileYAML(lang, pkg, rules)
			}
			w.VeneerDirs = append(w.VeneerDirs, dir)
			notes = append(notes, "veneers")
		}
	}
	// templates
	if r.Chance(1, 3) {
		if w.TplData == nil {
			w.TplData = map[string]string{"Version": "1.2.3", "Other": "o"}
		}
		for li := range w.Languages {
			l := &w.Languages[li]
			if l.Name == "jsonschema" || l.Name == "openapi" || !r.Chance(2, 3) {
				continue
			}
			dir := "tpl/extra_" + l.Name
			w.Files[dir+"/EXTRA.md"] = "packages:{{ range .Packages }} {{ . }}{{ end }}\nversion: {{ index .Extra \"Version\" }}\nextra:{{ range $k, $v := .Extra }} {{ $k }}={{ $v }}{{ end }}\n"
			w.Files[dir+"/sub/second.txt"] = "second {{ len .Packages }}\n"
			l.Flags["extra_files_templates"] = "[" + yq("%__config_dir%/"+dir) + "]"
		}
		notes = append(notes, "extra-templates")
	}
	// template overrides: a directory of user templates parsed next to the built-in ones
	if r.Chance(1, 4) {
		for li := range w.Languages {
			l := &w.Languages[li]
			if l.Name == "jsonschema" || l.Name == "openapi" || !r.Chance(2, 3) {
				continue
			}
			dir := "tpl/overrides_" + l.Name
			w.Files[dir+"/custom.tmpl"] = "{{ define \"verif_custom_block\" }}custom {{ . }}{{ end }}\n"
			w.Files[dir+"/nested/other.tmpl"] = "{{- define \"verif_other_block\" -}}other{{- end -}}\n"
			l.Flags["overrides_templates"] = "[" + yq("%__config_dir%/"+dir) + "]"
		}
		notes = append(notes, "template-overrides")
	}
	if r.Chance(1, 4) {
		w.RepoTpl = "tpl/repo"
		for _, l := range w.Languages {
			w.Files["tpl/repo/"+l.Name+"/README-"+l.Name+".md"] = "repo file for "+l.Name+"\n{{ range $k, $v := .Extra }}{{ $k }}={{ $v }} {{ end }}\n"
		}
		if sr := r.Side("repo-shared-file"); sr.Chance(1, 3) && len(w.Languages) > 1 {
			// the same relative path under several language directories
			for _, l := range w.Languages {
				w.Files["tpl/repo/"+l.Name+"/SHARED.md"] = "shared file as seen by " + l.Name + "\n"
			}
			notes = append(notes, "repo-shared-file")
		}
		notes = append(notes, "repo-templates")
	}
	for li := range w.Languages {
		l := &w.Languages[li]
		switch l.Name {
		case "typescript":
			if r.Chance(1, 2) {
				var ents []string
				for _, p := range view.Pkgs {
					ents = append(ents, fmt.Sprintf("%s: %s", yq(p.Name), yq("@ext/"+p.Name+"/%alpha%")))
				}
				ents = append(ents, "'zzz': '../zzz'")
				l.Flags["packages_import_map"] = "{" + strings.Join(ents, ", ") + "}"
			}
		case "java", "php":
			if r.Chance(1, 2) {
				var ents []string
				for _, p := range view.Pkgs {
					ents = append(ents, fmt.Sprintf("%s: %s", yq(p.Name), yq("Factory"+strings.ToUpper(p.Name[:1])+p.Name[1:])))
				}
				l.Flags["builder_factories_class_map"] = "{" + strings.Join(ents, ", ") + "}"
			}
		case "go":
			if len(w.Params) > 0 && r.Bool() {
				l.Flags["package_root"] = yq("github.com/example/%beta%")
			}
		}
	}
	if len(w.Params) == 0 && r.Chance(1, 3) {
		w.Params = map[string]string{"alpha": "x", "beta": "%alpha%/y", "gamma": "%beta%-%alpha%"}
	}
	if len(notes) > 0 {
		w.Name += " +" + strings.Join(notes, "+")
	}
}

// AddHandWrittenShapes adds a common passes file with add_object steps whose
// types are written by hand and use positions no parser produces: an enum as a
// map's index type, below a struct field, an array or a map value.
func AddHandWrittenShapes(r *Rand, w *Workload) {
	if len(w.Inputs) == 0 {
		return
	}
	pkg := w.Inputs[0].Package
	if pkg == "" {
		return
	}
	str := func() *TypeSpec { return &TypeSpec{K: Pick(r, []string{"string", "int64", "bool"})} }
	enum := func() *TypeSpec { return &TypeSpec{K: "enum", Values: []string{"low", "high"}} }
	enumMap := func() *TypeSpec { return &TypeSpec{K: "map", Index: enum(), Elem: str()} }
	var specs []PassSpec
	n := 1 + r.Intn(2)
	for i := 0; i < n; i++ {
		var t *TypeSpec
		switch r.Intn(5) {
		case 0:
			t = enumMap()
		case 1:
			t = &TypeSpec{K: "array", Elem: enumMap()}
		case 2:
			t = &TypeSpec{K: "map", Elem: enumMap()}
		case 3:
			t = &TypeSpec{K: "struct", Fields: []FieldSpec{{Name: "colors", T: &TypeSpec{K: "array", Elem: enumMap()}, Required: r.Bool()}, {Name: "labels", T: &TypeSpec{K: "map", Elem: enum()}, Required: r.Bool()}}}
		default:
			t = &TypeSpec{K: "struct", Fields: []FieldSpec{{Name: "bySeverity", T: enumMap(), Required: r.Bool()}, {Name: "plain", T: str()}}}
		}
		if r.Chance(1, 3) {
			// unions of constants written by hand, with and without a default, optional or not
			t = &TypeSpec{K: "struct", Fields: []FieldSpec{
				{Name: "mode", T: &TypeSpec{K: "constunion", Values: []string{"auto", "manual"}, Default: "auto"}, Required: r.Bool()},
				{Name: "plainMode", T: &TypeSpec{K: "constunion", Values: []string{"auto", "manual"}}, Required: r.Bool()},
				{Name: "nested", T: &TypeSpec{K: "array", Elem: &TypeSpec{K: "constunion", Values: []string{"x", "y"}, Default: "x"}}},
			}}
		}
		specs = append(specs, PassSpec{Kind: "add_object", Obj: fmt.Sprintf("%s.HandWritten%d", pkg, i), Type: t})
	}
	path := "cfg/handwritten_passes.yaml"
	w.Files[path] = PassesFileYAML(specs)
	w.CommonPass = append(w.CommonPass, path)
	w.Name += " +hand-written-shapes"
}
