package zzverif

import (
	"context"
	"encoding/json"
	"errors"
	"fmt"
	"io"
	"net/http"
	"os"
	"path/filepath"
	"sort"
	"strings"
	"syscall"

	"cuelang.org/go/cue/cuecontext"
	cog "github.com/grafana/cog"
	"github.com/grafana/cog/internal/ast"
	"github.com/grafana/cog/internal/jsonschema"
	cogyaml "github.com/grafana/cog/internal/yaml"
	"verif.local/simrt"
)

// C04 — no input or configuration makes cog panic or hang: fault injection on
// every file, stream, HTTP exchange and context of simulated runs.

const c04MaxTicks = 150_000_000 // ~4000x the ticks of a typical run: the deterministic hang verdict

type c04Payload struct {
	Mode   string         `json:"mode"` // pipeline | http | loader | facade
	W      *Workload      `json:"workload,omitempty"`
	Faults []Fault        `json:"faults,omitempty"`
	Sched  simrt.Schedule `json:"schedule"`
	Cancel string         `json:"cancel,omitempty"` // "", "before", "read:N"
	Loader string         `json:"loader,omitempty"` // loader mode: which entry point
	Doc    string         `json:"doc,omitempty"`
	Stream *streamFault   `json:"stream,omitempty"`
	Opts   string         `json:"opts,omitempty"` // generate | inspect | both
}

type streamFault struct {
	FailAfter int `json:"fail_after"` // bytes delivered before EIO (-1: never)
	Chunk     int `json:"chunk"`      // max bytes per Read
}

// faultyReader delivers its content in short reads and then fails.
type faultyReader struct {
	data  []byte
	pos   int
	f     streamFault
	fired *bool
}

func (r *faultyReader) Read(p []byte) (int, error) {
	if r.f.FailAfter >= 0 && r.pos >= r.f.FailAfter {
		if r.fired != nil {
			*r.fired = true
		}
		return 0, syscall.EIO
	}
	if r.pos >= len(r.data) {
		return 0, io.EOF
	}
	n := len(p)
	if r.f.Chunk > 0 && n > r.f.Chunk {
		n = r.f.Chunk
	}
	if n > len(r.data)-r.pos {
		n = len(r.data) - r.pos
	}
	if r.f.FailAfter >= 0 && r.pos+n > r.f.FailAfter {
		n = r.f.FailAfter - r.pos
	}
	copy(p, r.data[r.pos:r.pos+n])
	r.pos += n
	return n, nil
}

// ---------------------------------------------------------------- HTTP origin

type simTransport struct {
	files  map[string]string
	fault  Fault
	cancel context.CancelFunc
	cancelAt int
	reads  int
	fired  bool
}

type simBody struct {
	t    *simTransport
	data []byte
	pos  int
	mode string
	cut  int
}

func (b *simBody) Read(p []byte) (int, error) {
	b.t.reads++
	if b.t.cancelAt > 0 && b.t.reads == b.t.cancelAt && b.t.cancel != nil {
		b.t.cancel()
		b.t.fired = true
		return 0, context.Canceled
	}
	if (b.mode == "cut" || b.mode == "midbody") && b.pos >= b.cut {
		b.t.fired = true
		if b.mode == "cut" {
			return 0, io.ErrUnexpectedEOF
		}
		return 0, syscall.ECONNRESET
	}
	if b.pos >= len(b.data) {
		return 0, io.EOF
	}
	n := len(p)
	if n > 512 {
		n = 512
	}
	if n > len(b.data)-b.pos {
		n = len(b.data) - b.pos
	}
	if (b.mode == "cut" || b.mode == "midbody") && b.pos+n > b.cut {
		n = b.cut - b.pos
	}
	copy(p, b.data[b.pos:b.pos+n])
	b.pos += n
	return n, nil
}

func (b *simBody) Close() error { return nil }

func (t *simTransport) RoundTrip(req *http.Request) (*http.Response, error) {
	if err := req.Context().Err(); err != nil {
		return nil, err
	}
	rel := strings.TrimPrefix(req.URL.Path, "/")
	content, ok := t.files[rel]
	mode := ""
	if t.fault.Kind == "http" && (t.fault.Path == "" || t.fault.Path == rel) {
		mode = t.fault.Note
	}
	status := 200
	if !ok {
		status = 404
	}
	switch mode {
	case "refused":
		t.fired = true
		return nil, syscall.ECONNREFUSED
	case "404", "500", "302":
		t.fired = true
		fmt.Sscanf(mode, "%d", &status)
		content = "<html>error</html>"
	case "empty":
		t.fired = true
		content = ""
	case "foreign":
		t.fired = true
		content = "<!DOCTYPE html><html><body>captive portal</body></html>"
	}
	body := &simBody{t: t, data: []byte(content), mode: mode, cut: t.fault.Off}
	return &http.Response{StatusCode: status, Status: fmt.Sprintf("%d", status), Body: body, Header: http.Header{}, Request: req, ProtoMajor: 1, ProtoMinor: 1, ContentLength: -1}, nil
}

// ---------------------------------------------------------------- execution

type c04Outcome struct {
	Keys   map[string]string // violation key -> description
	Ex     *Exec
	Fired  []string
	Calls  []string
	Reads  int
}

func panicsOf(ex *Exec, obs *Observation) map[string]string {
	out := map[string]string{}
	if ex.Panic != nil {
		out[ex.Panic.Key()] = ex.Panic.Value
	}
	if obs != nil {
		for _, p := range obs.Panics {
			out[p.Key()] = p.Value
		}
	}
	return out
}

func runOptsOf(s string) RunOpts {
	switch s {
	case "generate":
		return RunOpts{Generate: true}
	case "inspect":
		return RunOpts{Inspect: true}
	}
	return RunOpts{Generate: true, Inspect: true}
}

// c04Exec executes one pipeline-mode or http-mode payload.
func c04Exec(dir string, p *c04Payload, dry bool) *c04Outcome {
	w := p.W.Clone()
	plan := &simrt.FSPlan{}
	var httpFault Fault
	for _, f := range p.Faults {
		switch f.Kind {
		case "call":
			plan.Faults = append(plan.Faults, simrt.FSFault{Op: f.Op, Suffix: f.Path, Nth: f.Nth, Errno: f.Errno})
		case "http":
			httpFault = f
		default:
			applyDiskFault(w, f)
		}
	}
	_ = os.RemoveAll(dir)
	must(os.MkdirAll(dir, 0o755))
	cfg, err := w.Materialise(dir)
	must(err)
	CurrentDesc.Store(fmt.Sprintf("C04 %s %s faults=%v cancel=%s", p.Mode, w.Name, p.Faults, p.Cancel))
	ctx, cancel := context.WithCancel(context.Background())
	defer cancel()
	var tr *simTransport
	if p.Mode == "http" {
		tr = &simTransport{files: w.Files, fault: httpFault, cancel: cancel}
		if strings.HasPrefix(p.Cancel, "read:") {
			fmt.Sscanf(p.Cancel, "read:%d", &tr.cancelAt)
		}
		saved := http.DefaultClient.Transport
		http.DefaultClient.Transport = tr
		defer func() { http.DefaultClient.Transport = saved }()
	}
	if p.Cancel == "before" {
		cancel()
	}
	opts := runOptsOf(p.Opts)
	opts.Ctx = ctx
	var obs *Observation
	ex := Simulate(p.Sched, plan, c04MaxTicks, func() error {
		var err error
		opts.FinalPasses = w.FinalPasses
		obs, err = RunPipeline(cfg, w.ExtraParams(), opts)
		return err
	})
	out := &c04Outcome{Keys: panicsOf(ex, obs), Ex: ex, Fired: plan.Fired, Calls: plan.Calls}
	if os.Getenv("COGSIM_STACKS") != "" && obs != nil {
		for _, pi := range obs.Panics {
			fmt.Fprintf(os.Stderr, "STAGE PANIC %s: %s\n%s\n", pi.Key(), pi.Value, pi.Stack)
		}
	}
	if tr != nil {
		out.Reads = tr.reads
		if tr.fired {
			out.Fired = append(out.Fired, "http:"+httpFault.Note+p.Cancel)
		}
	}
	return out
}

// c04Loader executes a loader-mode payload: the entry points that take an io.Reader.
func c04Loader(p *c04Payload) *c04Outcome {
	fired := false
	sf := streamFault{FailAfter: -1}
	if p.Stream != nil {
		sf = *p.Stream
	}
	rd := func() io.Reader { return &faultyReader{data: []byte(p.Doc), f: sf, fired: &fired} }
	CurrentDesc.Store("C04 loader " + p.Loader)
	ex := Simulate(p.Sched, nil, c04MaxTicks, func() error {
		switch p.Loader {
		case "compiler":
			passes, err := cogyaml.NewCompilerLoader().Load(rd())
			if err != nil {
				return err
			}
			// the loaded passes must also survive being applied to some schema
			s := ast.NewSchema("pkga", ast.SchemaMeta{})
			s.AddObject(ast.NewObject("pkga", "Alpha", ast.NewStruct(ast.NewStructField("id", ast.String()))))
			_, err = passes.Process(ast.Schemas{s})
			return err
		case "compiler_all":
			_, err := cogyaml.NewCompilerLoader().LoadAll([]io.Reader{rd(), rd()})
			return err
		case "jsonschema":
			_, err := jsonschema.GenerateAST(rd(), jsonschema.Config{Package: "pkga"})
			return err
		}
		return nil
	})
	out := &c04Outcome{Keys: panicsOf(ex, nil), Ex: ex}
	if fired {
		out.Fired = []string{"stream"}
	}
	return out
}

// c04Facade drives the library façade (cog.TypesFromSchema).
func c04Facade(dir string, p *c04Payload) *c04Outcome {
	w := p.W.Clone()
	for _, f := range p.Faults {
		if f.Kind != "call" && f.Kind != "http" {
			applyDiskFault(w, f)
		}
	}
	_ = os.RemoveAll(dir)
	must(os.MkdirAll(dir, 0o755))
	_, err := w.Materialise(dir)
	must(err)
	CurrentDesc.Store("C04 facade " + w.Name)
	ex := Simulate(p.Sched, nil, c04MaxTicks, func() error {
		in := w.Inputs[0]
		pl := cog.TypesFromSchema()
		if p.Loader == "cuevalue" {
			src := w.Files[in.Path+"/schema.cue"]
			v := cuecontext.New().CompileString(src)
			pl = pl.CUEValue(in.Package, v)
		} else {
			pl = pl.CUEModule(filepath.Join(dir, in.Path))
		}
		pl = pl.SchemaTransformations(cog.PrefixObjectsNames("Pre"), cog.AppendCommentToObjects("c"))
		if strings.Contains(p.Opts, "ts") {
			pl = pl.Typescript(cog.TypescriptConfig{})
		} else {
			pl = pl.Golang(cog.GoConfig{})
		}
		_, err := pl.Run(context.Background())
		return err
	})
	return &c04Outcome{Keys: panicsOf(ex, nil), Ex: ex}
}

func c04Run(dir string, p *c04Payload) *c04Outcome {
	switch p.Mode {
	case "loader":
		return c04Loader(p)
	case "facade":
		return c04Facade(dir, p)
	}
	return c04Exec(dir, p, false)
}

// ---------------------------------------------------------------- planning

var diskKindsAll = []string{"torn", "flip", "zero", "block", "transpose", "stale", "empty", "enoent", "dir", "record", "record", "record"}

func faultKind(f Fault) string {
	switch f.Kind {
	case "call":
		return "F5 call " + f.Errno
	case "torn":
		return "F1 torn tail"
	case "flip":
		return "F2 flipped byte"
	case "zero":
		return "F3 lost sector"
	case "block", "transpose":
		return "F4 misdirected block"
	case "enoent":
		return "F5 missing file"
	case "dir":
		return "F5 directory for file"
	case "stale":
		return "F6 stale version"
	case "empty":
		return "F7 empty file"
	case "http":
		return "F9 http " + f.Note
	case "record":
		return "F11 record corruption"
	}
	return f.Kind
}

func parseCall(c string) (op, path string) {
	op, path, _ = strings.Cut(c, " ")
	return
}

// planFaults draws n faults against the calls and files of a dry run.
func planFaults(r *Rand, w *Workload, calls []string, n int, enabled map[string]bool, dirAbs string) []Fault {
	var faults []Fault
	var files []string
	for _, p := range SortedKeys(w.Files) {
		if !strings.HasSuffix(p, "/") {
			files = append(files, p)
		}
	}
	// bias towards inputs and configuration
	weight := func(p string) int {
		switch {
		case strings.HasPrefix(p, "in/"):
			return 4
		case strings.HasPrefix(p, "cfg/"):
			return 3
		case strings.HasPrefix(p, "tpl/"):
			return 2
		}
		return 1
	}
	var pool []string
	for _, p := range files {
		for i := 0; i < weight(p); i++ {
			pool = append(pool, p)
		}
	}
	pool = append(pool, "pipeline.yaml", "pipeline.yaml", "pipeline.yaml")
	var kinds []string
	for _, k := range diskKindsAll {
		if enabled[k] {
			kinds = append(kinds, k)
		}
	}
	for i := 0; i < n; i++ {
		if enabled["call"] && len(calls) > 0 && r.Chance(1, 4) {
			op, path := parseCall(Pick(r, calls))
			if op == "glob" {
				continue
			}
			suffix := strings.TrimPrefix(path, dirAbs+"/")
			errno := Pick(r, []string{"ENOENT", "EACCES", "EIO", "EMFILE", "EISDIR"})
			faults = append(faults, Fault{Kind: "call", Op: op, Path: suffix, Nth: 1, Errno: errno})
			continue
		}
		if len(kinds) == 0 || len(pool) == 0 {
			continue
		}
		path := Pick(r, pool)
		if path == "pipeline.yaml" {
			// faults on the pipeline file: materialise it as a regular file of the workload
			cfg := w.RenderConfig()
			tmp := &Workload{Files: map[string]string{"pipeline.yaml": cfg}}
			k := Pick(r, []string{"record", "record", "torn", "flip", "empty"})
			f := drawDiskFault(r, tmp, "pipeline.yaml", []string{k})
			applyDiskFault(tmp, f)
			s := tmp.Files["pipeline.yaml"]
			faults = append(faults, Fault{Kind: "record", Path: "pipeline.yaml", Note: "pipeline file: " + f.Kind + " " + f.Note, Content: &s})
			continue
		}
		faults = append(faults, drawDiskFault(r, w, path, kinds))
	}
	return faults
}

// pipelineFileFault: the pipeline file is rendered, not stored; a fault on it
// is carried as ConfigYAML.
func liftConfigFaults(p *c04Payload) {
	var rest []Fault
	for _, f := range p.Faults {
		if f.Path == "pipeline.yaml" && f.Content != nil {
			p.W = p.W.Clone()
			p.W.ConfigYAML = *f.Content
			p.W.Name += " [" + f.Note + "]"
			continue
		}
		rest = append(rest, f)
	}
	p.Faults = rest
}

func toURLInputs(w *Workload) bool {
	changed := false
	for i := range w.Inputs {
		in := &w.Inputs[i]
		if (in.Kind == "jsonschema" || in.Kind == "openapi") && in.Path != "" {
			in.URL = "http://sim.local/" + in.Path
			in.Path = ""
			changed = true
		}
	}
	return changed
}

func c04Key(k string) string { return "crash|" + k }

// c04Minimise drops faults, workload parts and the schedule while key persists.
func c04Minimise(dir string, p *c04Payload, key string, budget int) *c04Payload {
	best := *p
	holds := func(c *c04Payload) bool {
		if budget <= 0 {
			return false
		}
		budget--
		_, ok := c04Run(dir, c).Keys[key]
		return ok
	}
	// faults
	for i := 0; i < len(best.Faults); i++ {
		c := best
		c.Faults = append(append([]Fault(nil), best.Faults[:i]...), best.Faults[i+1:]...)
		if holds(&c) {
			best = c
			i--
		}
	}
	if best.Cancel != "" {
		c := best
		c.Cancel = ""
		if holds(&c) {
			best = c
		}
	}
	if best.Stream != nil {
		c := best
		c.Stream = nil
		if holds(&c) {
			best = c
		}
	}
	// schedule
	if best.Sched.Default != simrt.Canonical || len(best.Sched.KeyOrder) > 0 {
		c := best
		c.Sched = simrt.Schedule{Default: simrt.Canonical}
		if holds(&c) {
			best = c
		}
	}
	if best.Opts == "both" || best.Opts == "" {
		for _, o := range []string{"inspect", "generate"} {
			c := best
			c.Opts = o
			if holds(&c) {
				best = c
				break
			}
		}
	}
	if best.W != nil && best.Mode != "facade" {
		b := budget
		best.W = shrinkWorkload(best.W, func(w *Workload) bool {
			c := best
			c.W = w
			return holds(&c)
		}, &b)
	}
	return &best
}

// c04Scenario: configurations that are legal YAML and plausible mistakes, each aiming
// at a kind assumption of the code that reads it (a struct where the user put an alias
// or a scalar, a second application of a rule to what the first one produced).
func c04Scenario(r *Rand) *Workload {
	w := &Workload{Files: map[string]string{}, Types: true, Builders: true}
	str := func() *WType { return &WType{K: "string"} }
	thing := &WPackage{Name: "scn", Objects: []WObject{
		{Name: "Thing", T: &WType{K: "struct", Fields: []WField{
			{Name: "title", T: str(), Required: true},
			{Name: "enabled", T: &WType{K: "bool", Default: true}},
			{Name: "labels", T: &WType{K: "array", Elem: str()}},
			{Name: "inner", T: &WType{K: "ref", Ref: "Inner"}},
		}}},
		{Name: "Inner", T: &WType{K: "struct", Fields: []WField{{Name: "x", T: &WType{K: "int"}}}}},
		{Name: "ThingAlias", T: &WType{K: "ref", Ref: "Thing"}},
	}}
	kind := Pick(r, []string{"envelope-on-scalar", "envelope-on-array", "unfold-twice", "compose-on-alias", "dataquery-not-a-struct", "dataquery-alias",
		"template-loop:include", "template-loop:includeIfExists", "template-loop:template", "veneer-chain", "veneer-chain", "veneer-chain",
		"boundary-defaults", "boundary-defaults", "boundary-defaults", "incomplete-type", "incomplete-type", "incomplete-type", "malformed-refs", "malformed-refs", "string-patterns", "string-patterns"})
	if forcedScenario != "" {
		kind = forcedScenario
	}
	switch kind {
	case "boundary-defaults":
		// defaults written in a transformation file reach the jennies with whatever dynamic
		// type yaml.v3 gave them: unsigned integers above MaxInt64, infinities, NaN, timestamps,
		// binaries, nulls, nested collections - on a field of every kind (numeric and string
		// enums by reference and inline, scalars, collections, references to structs)
		pk := &WPackage{Name: "bnd", Objects: []WObject{
			{Name: "Level", T: &WType{K: "enum", Enum: []any{1, 2, 3}}},
			{Name: "Mode", T: &WType{K: "enum", Enum: []any{"auto", "manual"}}},
			{Name: "Inner", T: &WType{K: "struct", Fields: []WField{{Name: "x", T: &WType{K: "int"}}}}},
			{Name: "Thing", T: &WType{K: "struct", Fields: []WField{
				{Name: "level", T: &WType{K: "ref", Ref: "Level"}},
				{Name: "mode", T: &WType{K: "ref", Ref: "Mode"}},
				{Name: "inlineLevel", T: &WType{K: "enum", Enum: []any{0, 10}}},
				{Name: "count", T: &WType{K: "int"}},
				{Name: "ratio", T: &WType{K: "float"}},
				{Name: "title", T: str()},
				{Name: "enabled", T: &WType{K: "bool"}},
				{Name: "labels", T: &WType{K: "array", Elem: str()}},
				{Name: "byName", T: &WType{K: "map", Elem: &WType{K: "int"}}},
				{Name: "inner", T: &WType{K: "ref", Ref: "Inner"}},
			}}},
		}}
		kindIn := Pick(r, []string{"jsonschema", "jsonschema", "openapi", "cue"})
		switch kindIn {
		case "openapi":
			w.Files["in/bnd/schema.json"] = pk.RenderOpenAPI()
		case "cue":
			w.Files["in/bnd/schema.cue"] = pk.RenderCUE("bnd")
		default:
			w.Files["in/bnd/schema.json"] = pk.RenderJSONSchema()
		}
		path := "in/bnd/schema.json"
		if kindIn == "cue" {
			path = "in/bnd/schema.cue"
		}
		w.Inputs = []InputSpec{{Kind: kindIn, Path: path, Package: "bnd", Transformations: []string{"cfg/bnd_passes.yaml"}}}
		vals := []string{"9223372036854775808", "18446744073709551615", "-9223372036854775808", "9223372036854775807", "1e400", ".inf", "-.inf", ".nan", "2001-12-14", "2001-12-14t21:59:43.10-05:00",
			"!!binary aGVsbG8=", "~", "[]", "{}", "[[1, 2], {a: ~}]", "{1: one, true: yes}", "0x7fffffffffffffff", "0o17", "-0.0", "1_000", "\"\"", "'multi\n  line'", "!!str 3", "!!float 3", "4294967296", "3", "manual", "[auto]"}
		var y strings.Builder
		y.WriteString("passes:\n  - fields_set_default:\n      defaults:\n")
		for _, f := range []string{"level", "mode", "inlineLevel", "count", "ratio", "title", "enabled", "labels", "byName", "inner"} {
			if r.Chance(2, 3) {
				fmt.Fprintf(&y, "        bnd.Thing.%s: %s\n", f, Pick(r, vals))
			}
		}
		if r.Chance(1, 3) {
			// the same kind of value as the default of a hand-written field
			fmt.Fprintf(&y, "  - add_fields:\n      to: bnd.Thing\n      fields:\n        - name: extra\n          type:\n            kind: ref\n            ref: {referred_pkg: bnd, referred_type: %s}\n            default: %s\n", Pick(r, []string{"Level", "Mode", "Inner"}), Pick(r, vals))
		}
		w.Files["cfg/bnd_passes.yaml"] = y.String()
		w.Converters = r.Bool()
		w.Languages = GenLanguages(r, 1, 4)
	case "malformed-refs":
		// object and field references of the wrong arity or with empty segments, in every
		// transformation that takes one: the loader has to answer with an error
		w.Files["in/scn/schema.json"] = thing.RenderJSONSchema()
		w.Inputs = []InputSpec{{Kind: "jsonschema", Path: "in/scn/schema.json", Package: "scn", Transformations: []string{"cfg/scn_passes.yaml"}}}
		bad := []string{"scn.Thing", "scn", "", ".", "..", "scn..title", "scn.Thing.", ".Thing.title", "scn.Thing.title.extra", "scn.Thing.inner.x", "a.b.c.d.e", "scn.Thing.title", "scn.thing"}
		ref := func() string { return yq(Pick(r, bad)) }
		var y strings.Builder
		y.WriteString("passes:\n")
		for i, n := 0, 1+r.Intn(3); i < n; i++ {
			switch r.Intn(12) {
			case 0:
				fmt.Fprintf(&y, "  - fields_set_required:\n      fields: [%s, %s]\n", ref(), ref())
			case 1:
				fmt.Fprintf(&y, "  - fields_set_not_required:\n      fields: [%s]\n", ref())
			case 2:
				fmt.Fprintf(&y, "  - fields_set_default:\n      defaults:\n        %s: 1\n", ref())
			case 3:
				fmt.Fprintf(&y, "  - omit_fields:\n      fields: [%s]\n", ref())
			case 4:
				fmt.Fprintf(&y, "  - omit:\n      objects: [%s]\n", ref())
			case 5:
				fmt.Fprintf(&y, "  - rename_object:\n      from: %s\n      to: Renamed\n", ref())
			case 6:
				fmt.Fprintf(&y, "  - retype_field:\n      field: %s\n      as:\n        kind: scalar\n        scalar: {scalar_kind: string}\n", ref())
			case 7:
				fmt.Fprintf(&y, "  - duplicate_object:\n      object: %s\n      as: %s\n", ref(), ref())
			case 8:
				fmt.Fprintf(&y, "  - replace_reference:\n      from: %s\n      to: %s\n", ref(), ref())
			case 9:
				fmt.Fprintf(&y, "  - hint_object:\n      object: %s\n      hints: {a: b}\n", ref())
			case 10:
				fmt.Fprintf(&y, "  - add_fields:\n      to: %s\n      fields:\n        - name: extra\n          type: {kind: scalar, scalar: {scalar_kind: string}}\n", ref())
			default:
				fmt.Fprintf(&y, "  - constant_to_enum:\n      objects: [%s]\n", ref())
			}
		}
		w.Files["cfg/scn_passes.yaml"] = y.String()
	case "string-patterns":
		// `pattern` values that are valid regular expressions but not what the constant
		// detection expects (lone anchors, one anchor only, empty, escapes), JSON Schema and OpenAPI
		pats := []string{"^", "$", "^$", "", "^a", "a$", "^^", "$$", "^\\$", "\\", "^a|b$", "^(a)$", "^.$", "^ $", "^\\^$", "(", "^math$", "^$^$"}
		props := map[string]any{}
		for i, n := 0, 1+r.Intn(4); i < n; i++ {
			f := map[string]any{"type": "string", "pattern": Pick(r, pats)}
			if r.Chance(1, 4) {
				f["default"] = Pick(r, []any{"x", "", 1})
			}
			props[fmt.Sprintf("p%d", i)] = f
		}
		if r.Bool() {
			doc := map[string]any{"$schema": "http://json-schema.org/draft-07/schema#", "$ref": "#/definitions/Thing", "definitions": map[string]any{"Thing": map[string]any{"type": "object", "properties": props}, "Alias": map[string]any{"type": "string", "pattern": Pick(r, pats)}}}
			b, _ := json.MarshalIndent(doc, "", " ")
			w.Files["in/scn/schema.json"] = string(b)
			w.Inputs = []InputSpec{{Kind: "jsonschema", Path: "in/scn/schema.json", Package: "scn"}}
		} else {
			doc := map[string]any{"openapi": "3.0.0", "info": map[string]any{"title": "scn", "version": "1"}, "paths": map[string]any{},
				"components": map[string]any{"schemas": map[string]any{"Thing": map[string]any{"type": "object", "properties": props}, "Alias": map[string]any{"type": "string", "pattern": Pick(r, pats)}}}}
			b, _ := json.MarshalIndent(doc, "", " ")
			w.Files["in/scn/openapi.json"] = string(b)
			w.Inputs = []InputSpec{{Kind: "openapi", Path: "in/scn/openapi.json", Package: "scn", NoValidate: r.Bool()}}
		}
		w.Languages = GenLanguages(r, 1, 3)
	case "incomplete-type":
		// a hand-written type (add_object, add_fields, retype_field) in which one entry of one
		// type definition is missing: `kind: scalar` without its `scalar:` block, a map without
		// value type, an enum member without type... at any depth. The loader either rejects
		// the file or every reader of the type copes.
		w.Files["in/scn/schema.json"] = thing.RenderJSONSchema()
		w.Inputs = []InputSpec{{Kind: "jsonschema", Path: "in/scn/schema.json", Package: "scn", Transformations: []string{"cfg/scn_passes.yaml"}}}
		view := &IRView{Pkgs: []PkgView{{Name: "scn", Objects: []ObjView{{Name: "Thing", Kind: ast.KindStruct, Fields: []FieldView{{Name: "title", Kind: ast.KindScalar}, {Name: "labels", Kind: ast.KindArray}}}, {Name: "Inner", Kind: ast.KindStruct, Fields: []FieldView{{Name: "x", Kind: ast.KindScalar}}}}}}}
		var ts *TypeSpec
		for try := 0; try < 6; try++ {
			ts = genTypeSpec(r, view, 0)
			if ts.K == "map" || ts.K == "array" || ts.K == "struct" || ts.K == "enum" {
				break
			}
		}
		if r.Chance(1, 2) {
			ts = &TypeSpec{K: Pick(r, []string{"array", "map"}), Elem: ts}
		}
		var ps PassSpec
		switch r.Intn(3) {
		case 0:
			ps = PassSpec{Kind: "add_object", Obj: "scn.Written", Type: ts}
		case 1:
			ps = PassSpec{Kind: "add_fields", Obj: "scn.Thing", NewFields: []FieldSpec{{Name: "written", T: ts, Required: r.Bool()}}}
		default:
			ps = PassSpec{Kind: "retype_field", Fields: []string{"scn.Thing.title"}, Type: ts}
		}
		doc := PassesFileYAML([]PassSpec{ps})
		note := "untouched"
		for i, n := 0, 1+r.Intn(2); i < n; i++ {
			doc, note = dropTypeEntry(r, doc)
		}
		_ = note
		w.Files["cfg/scn_passes.yaml"] = doc
		w.Languages = GenLanguages(r, 1, 4)
	case "veneer-chain":
		// two to four option rules aimed at one option of a struct that has a field of every
		// shape: each rule meets what the previous one made of the option (arity, argument
		// kinds, paths), with parameter lists that fit or not
		cw := GenShapesWorkload(r)
		field := Pick(r, []string{"title", "enabled", "labels", "switches", "flags", "names", "inners", "byName", "inner", "either", "eitherByName", "eithers"})
		var y strings.Builder
		y.WriteString("language: all\npackage: shapes\noptions:\n")
		n := 2 + r.Intn(3)
		for i := 0; i < n; i++ {
			sel := "      by_name: Thing." + field + "\n"
			switch Pick(r, []string{"rename_arguments", "rename_arguments", "map_to_index", "array_to_append", "unfold_boolean", "struct_fields_as_arguments", "struct_fields_as_options", "disjunction_as_options", "duplicate", "add_comments", "rename"}) {
			case "rename_arguments":
				names := []string{"first", "second", "third"}[:r.Intn(4)]
				y.WriteString("  - rename_arguments:\n" + sel + "      as: [" + strings.Join(names, ", ") + "]\n")
			case "map_to_index":
				y.WriteString("  - map_to_index:\n" + sel)
			case "array_to_append":
				y.WriteString("  - array_to_append:\n" + sel)
			case "unfold_boolean":
				y.WriteString("  - unfold_boolean:\n" + sel + "      true_as: " + field + "\n      false_as: no" + field + "\n")
			case "struct_fields_as_arguments":
				y.WriteString("  - struct_fields_as_arguments:\n" + sel)
			case "struct_fields_as_options":
				y.WriteString("  - struct_fields_as_options:\n" + sel)
			case "disjunction_as_options":
				fmt.Fprintf(&y, "  - disjunction_as_options:\n%s      argument_index: %d\n", sel, r.Intn(3))
			case "duplicate":
				y.WriteString("  - duplicate:\n" + sel + "      as: " + field + "Copy\n")
			case "add_comments":
				y.WriteString("  - add_comments:\n" + sel + "      comments: ['one more']\n")
			default:
				y.WriteString("  - rename:\n" + sel + "      as: " + field + "\n")
			}
		}
		cw.Files["cfg/veneers/chain.yaml"] = y.String()
		cw.VeneerDirs = []string{"cfg/veneers"}
		cw.Converters = r.Bool()
		w = cw
	case "template-loop:include", "template-loop:includeIfExists", "template-loop:template":
		// a user template that reaches itself: every way of calling a template has to end in an error
		w.Files["in/scn/schema.json"] = thing.RenderJSONSchema()
		w.Inputs = []InputSpec{{Kind: "jsonschema", Path: "in/scn/schema.json", Package: "scn"}}
		call := "{{ " + strings.TrimPrefix(kind, "template-loop:") + " \"verif_loop\" . }}"
		body := "{{ define \"verif_loop\" }}x" + call + "{{ end }}"
		w.Languages = nil
		for _, l := range Shuffled(r, []string{"go", "python", "typescript", "java", "php"})[:1+r.Intn(2)] {
			ls := LangSpec{Name: l, Flags: map[string]string{}}
			if r.Bool() {
				dir := "tpl/extra_" + l
				w.Files[dir+"/LOOP.md"] = body + "\nloop: " + call + "\n"
				ls.Flags["extra_files_templates"] = "[" + yq("%__config_dir%/"+dir) + "]"
			} else {
				dir := "tpl/overrides_" + l
				w.Files[dir+"/loop.tmpl"] = body + "\n"
				w.Files["tpl/extra_"+l+"/USES.md"] = "uses: " + call + "\n"
				ls.Flags["overrides_templates"] = "[" + yq("%__config_dir%/"+dir) + "]"
				ls.Flags["extra_files_templates"] = "[" + yq("%__config_dir%/tpl/extra_"+l) + "]"
			}
			w.Languages = append(w.Languages, ls)
		}
	case "envelope-on-scalar", "envelope-on-array", "unfold-twice":
		w.Files["in/scn/schema.json"] = thing.RenderJSONSchema()
		w.Inputs = []InputSpec{{Kind: "jsonschema", Path: "in/scn/schema.json", Package: "scn"}}
		y := "language: all\npackage: scn\noptions:\n"
		switch kind {
		case "envelope-on-scalar":
			y += "  - add_assignment:\n      by_name: Thing.title\n      assignment:\n        path: title\n        method: direct\n        value:\n          envelope:\n            values:\n              - field: x\n                value: {constant: 1}\n"
		case "envelope-on-array":
			y += "  - add_assignment:\n      by_name: Thing.labels\n      assignment:\n        path: labels\n        method: append\n        value:\n          envelope:\n            values:\n              - field: x\n                value: {constant: 1}\n"
		default:
			y += "  - unfold_boolean:\n      by_name: Thing.enabled\n      true_as: on\n      false_as: off\n  - unfold_boolean:\n      by_name: Thing.on\n      true_as: reallyOn\n      false_as: reallyOff\n"
		}
		w.Files["cfg/veneers/scn.yaml"] = y
		w.VeneerDirs = []string{"cfg/veneers"}
	case "compose-on-alias":
		cw := GenComposeWorkload(r)
		var doc map[string]any
		if json.Unmarshal([]byte(cw.Files["in/gen_dashboard/schema.json"]), &doc) == nil {
			if defs, ok := doc["definitions"].(map[string]any); ok {
				defs["PanelAlias"] = map[string]any{"$ref": "#/definitions/Panel"}
				if root, ok := defs["Root"].(map[string]any); ok {
					if props, ok := root["properties"].(map[string]any); ok {
						props["f_PanelAlias"] = map[string]any{"$ref": "#/definitions/PanelAlias"}
					}
				}
			}
			b, _ := json.MarshalIndent(doc, "", " ")
			cw.Files["in/gen_dashboard/schema.json"] = string(b)
		}
		cw.Files["cfg/veneers/compose.yaml"] = strings.Replace(cw.Files["cfg/veneers/compose.yaml"], "source_builder_name: dashboard.Panel", "source_builder_name: dashboard.PanelAlias", 1)
		w = cw
	default:
		common := &WPackage{Name: "common", Objects: []WObject{{Name: "DataQuery", T: str()}, {Name: "Other", T: &WType{K: "struct", Fields: []WField{{Name: "a", T: str()}}}}}}
		if kind == "dataquery-alias" {
			common.Objects[0].T = &WType{K: "ref", Ref: "Other"}
		}
		query := &WPackage{Name: "myquery", Objects: []WObject{{Name: "Query", T: &WType{K: "struct", Fields: []WField{{Name: "expr", T: str()}, {Name: "refId", T: str()}}}}}}
		w.Files["in/common/schema.json"] = common.RenderJSONSchema()
		w.Files["in/myquery/schema.json"] = query.RenderJSONSchema()
		w.Inputs = []InputSpec{
			{Kind: "jsonschema", Path: "in/common/schema.json", Package: "common"},
			{Kind: "jsonschema", Path: "in/myquery/schema.json", Package: "myquery", Metadata: map[string]string{"kind": "composable", "variant": "dataquery", "identifier": "myquery"}},
		}
		w.Files["cfg/common_passes.yaml"] = "passes:\n  - dataquery_identification: {}\n"
		w.CommonPass = []string{"cfg/common_passes.yaml"}
	}
	if len(w.Languages) == 0 {
		w.Languages = GenLanguages(r, 1, 3)
	}
	w.Name = "scenario:" + kind + " -> " + strings.Join(w.LangNames(), ",")
	return w
}

var forcedScenario string

var inputConditions = []string{
	"true", "1 < 2", "false", `sprintf("%s-%d", "a", 1) == "a-1"`, `semver("1.2.3").Major >= 1`, `semver("v10.0.0-pre").GT(semver("9.5.1"))`,
	"'yes'", "1", "nil", `sprintf("%d", 3)`, `semver("not a version")`, `semver("1.0.0")`,
	`first(['a', 'b'])`, `[1, 'a'][1]`, `{"a": 1, "b": 'x'}["b"]`, `1 < 2 ? 'enabled' : false`, `fromJSON("{\"x\": 1}").x`, `find(['v1', 'v2'], # == 'v2')`,
	`fromJSON("[")`, `[1, 2][5]`, `1 / 0 > 0`, `len(nil) > 0`,
	"1 <", ")(", "", "unknownFunction(1)", "%alpha%", `"%alpha%" == "x"`, "true and", "let x = 1; x == 1",
}

func init() {
	Register(&Property{
		ID: "C04",
		Setup: func(ctx *Ctx) {
			ctx.Corpus = LoadCorpus(ctx.RepoRoot)
		},
		RunCase: func(ctx *Ctx, seed uint64, idx int) *CaseResult {
			r := NewRand(seed)
			dir := filepath.Join(ctx.Dirs.Root, "case")
			defer os.RemoveAll(dir)
			res := &CaseResult{}
			p := &c04Payload{Opts: "both"}
			p.Sched = simrt.Schedule{Default: Pick(r, []simrt.Policy{simrt.Canonical, simrt.Canonical, simrt.Reverse, simrt.Shuffle}), Seed: r.U64()}
			// which fault kinds are enabled in this run (swarm)
			enabled := map[string]bool{}
			for _, k := range append([]string{"call"}, diskKindsAll...) {
				enabled[k] = r.Chance(2, 3)
			}
			nf := 0
			switch x := r.Intn(4); {
			case x == 0:
				nf = 0
			case x <= 2:
				nf = 1
			default:
				nf = 2 + r.Intn(2)
			}
			mode := "pipeline"
			switch x := r.Intn(20); {
			case x < 3:
				mode = "loader"
			case x < 4:
				mode = "facade"
			case x < 7:
				mode = "http"
			}
			p.Mode = mode
			switch mode {
			case "loader":
				p.Loader = Pick(r, []string{"compiler", "compiler", "compiler_all", "jsonschema"})
				if p.Loader == "jsonschema" {
					p.Doc = GenPackage(r.Fork("p"), "pkga", GenOpts{Wild: r.Bool()}).RenderJSONSchema()
					if nf > 0 && r.Bool() {
						p.Doc, _ = mutateJSON(r, p.Doc)
					}
				} else {
					view := &IRView{Pkgs: []PkgView{{Name: "pkga", Objects: []ObjView{{Name: "Alpha", Kind: ast.KindStruct, Fields: []FieldView{{Name: "id", Kind: ast.KindScalar}}}}}}}
					p.Doc = PassesFileYAML(genPassFile(r, view, 5, true))
					if nf > 0 && r.Bool() {
						p.Doc, _ = mutateYAML(r, p.Doc)
					}
				}
				if nf > 0 {
					p.Stream = &streamFault{FailAfter: -1, Chunk: 1 + r.Intn(7)}
					if r.Chance(2, 3) {
						p.Stream.FailAfter = r.Intn(len(p.Doc) + 1)
					}
				}
			case "facade":
				w := &Workload{Files: map[string]string{}, Name: "facade"}
				in, _ := genPkgInput(r, w, "pkga", "cue", GenOpts{Wild: r.Chance(1, 3)})
				w.Inputs = []InputSpec{in}
				p.W = w
				p.Loader = Pick(r, []string{"cuemodule", "cuevalue"})
				p.Opts = Pick(r, []string{"go", "ts"})
				if nf > 0 {
					p.Faults = []Fault{drawDiskFault(r, w, in.Path+"/schema.cue", []string{"torn", "flip", "record", "block", "empty"})}
				}
			default:
				wild := r.Chance(1, 3)
				w := GenWorkload(r, ctx.Corpus, 3, GenOpts{Wild: wild, NoAllOf: r.Chance(1, 3)})
				if r.Chance(2, 3) {
					EnrichWorkload(r.Fork("enrich"), w, dir)
				}
				if r.Chance(1, 8) {
					// parameters that refer to themselves or to each other: legal YAML, and
					// exactly what `--parameters output_dir=%output_dir%/v2` produces
					if w.Params == nil {
						w.Params = map[string]string{}
					}
					switch r.Intn(3) {
					case 0:
						w.Params["self"] = "%self%/v2"
					case 1:
						w.Params["ping"], w.Params["pong"] = "%pong%/a", "%ping%/b"
					default:
						w.Params["same"] = "%same%"
					}
					if w.TplData == nil {
						w.TplData = map[string]string{}
					}
					w.TplData["Cyclic"] = Pick(r, []string{"%self%", "%ping%", "%same%"})
					w.OutputDir = "out/%l/" + Pick(r, []string{"%self%", "%pong%", "x"})
				}
				if sr := r.Side("scenario"); sr.Chance(1, 25) || ctx.Opt["scenario"] != "" {
					forcedScenario = ctx.Opt["scenario"] // debugging aid: -opt scenario=<kind>
					w = c04Scenario(sr)
				}
				if sr := r.Side("scenario-values"); sr.Chance(1, 16) && ctx.Opt["scenario"] == "" {
					// the two scenarios about what a configuration file can carry (values of odd
					// dynamic types, incomplete hand-written types) have many variants each
					forcedScenario = Pick(sr, []string{"boundary-defaults", "incomplete-type", "incomplete-type", "malformed-refs", "string-patterns"})
					w = c04Scenario(sr)
					forcedScenario = ""
				}
				if sr := r.Side("input-condition"); sr.Chance(1, 6) && len(w.Inputs) > 0 {
					// `if:` conditions: boolean, skipping, statically and dynamically non-boolean,
					// unparsable, using the two helper functions, failing at run time
					w.Inputs[sr.Intn(len(w.Inputs))].If = Pick(sr, inputConditions)
				}
				p.W = w
				if mode == "http" {
					if !toURLInputs(w) {
						p.Mode = "pipeline"
					}
				}
				if d := ctx.Opt["dumpdir"]; d != "" {
					// debugging aid: the configuration files of the case, before anything runs
					for rel, body := range w.Files {
						if strings.HasPrefix(rel, "cfg/") {
							_ = os.MkdirAll(filepath.Join(d, fmt.Sprint(idx), filepath.Dir(rel)), 0o755)
							_ = os.WriteFile(filepath.Join(d, fmt.Sprint(idx), rel), []byte(body), 0o644)
						}
					}
				}
				// dry, fault-free run: which calls exist, does it work at all
				dry := c04Exec(dir, p, true)
				ctx.Account(dry.Ex)
				res.Execs++
				if ctx.Opt["scenario"] != "" {
					fmt.Fprintf(os.Stderr, "scenario: %s mode=%s err=%s keys=%v\n", w.Name, p.Mode, truncate(dry.Ex.ErrString(), 300), dry.Keys)
				}
				for k, v := range dry.Keys {
					// a crash without any fault is reported as such
					res.Violations = append(res.Violations, Violation{Key: c04Key(k), What: fmt.Sprintf("%s (no fault injected; %s)", v, w.Name), Payload: *p})
				}
				if len(res.Violations) == 0 && nf > 0 {
					if p.Mode == "http" {
						note := Pick(r, []string{"404", "500", "302", "empty", "cut", "midbody", "foreign", "refused", "cancel", "cancel-before"})
						switch note {
						case "cancel":
							p.Cancel = fmt.Sprintf("read:%d", 1+r.Intn(dry.Reads+1))
						case "cancel-before":
							p.Cancel = "before"
						default:
							f := Fault{Kind: "http", Note: note}
							for _, in := range w.Inputs {
								if in.URL != "" {
									rel := strings.TrimPrefix(in.URL, "http://sim.local/")
									f.Off = r.Intn(len(w.Files[rel]) + 1)
									if r.Bool() {
										f.Path = rel
									}
								}
							}
							p.Faults = append(p.Faults, f)
						}
						nf--
					} else if r.Chance(1, 12) {
						p.Cancel = "before"
					}
					p.Faults = append(p.Faults, planFaults(r, w, dry.Calls, nf, enabled, dir)...)
					liftConfigFaults(p)
				}
			}
			for _, f := range p.Faults {
				ctx.Stats.FaultsPlan[faultKind(f)]++
			}
			if p.Stream != nil {
				ctx.Stats.FaultsPlan["F8 stream error / short reads"]++
			}
			if p.Cancel != "" {
				ctx.Stats.FaultsPlan["F10 cancellation"]++
			}
			if len(res.Violations) == 0 {
				out := c04Run(dir, p)
				ctx.Account(out.Ex)
				res.Execs++
				// consumed faults
				for _, f := range p.Faults {
					switch f.Kind {
					case "call":
						for _, fired := range out.Fired {
							if strings.HasPrefix(fired, f.Op+" "+f.Path) {
								ctx.Stats.Faults[faultKind(f)]++
							}
						}
					case "http":
						for _, fired := range out.Fired {
							if strings.HasPrefix(fired, "http:") {
								ctx.Stats.Faults[faultKind(f)]++
							}
						}
					default:
						ctx.Stats.Faults[faultKind(f)]++ // input/config files are always read
					}
				}
				if p.Stream != nil && len(out.Fired) > 0 {
					ctx.Stats.Faults["F8 stream error / short reads"]++
				}
				if p.Cancel != "" {
					ctx.Stats.Faults["F10 cancellation"]++
				}
				if len(p.Faults) > 0 || p.Stream != nil || p.Cancel != "" {
					var fk []string
					for _, f := range p.Faults {
						fk = append(fk, f.String())
					}
					name := p.Loader
					if p.W != nil {
						name = p.W.Fingerprint()
					}
					res.Nontrivial = append(res.Nontrivial, ShaStr(name+strings.Join(fk, ";")+p.Cancel+fmt.Sprint(p.Stream)))
				}
				keys := make([]string, 0, len(out.Keys))
				for k := range out.Keys {
					keys = append(keys, k)
				}
				sort.Strings(keys)
				for _, k := range keys {
					min := c04Minimise(dir, p, k, 30)
					desc := "loader " + p.Loader
					if min.W != nil {
						desc = min.W.Name
					}
					var fk []string
					for _, f := range min.Faults {
						fk = append(fk, f.String())
					}
					res.Violations = append(res.Violations, Violation{Key: c04Key(k), What: fmt.Sprintf("%s [%s; faults: %v %s]", truncate(out.Keys[k], 300), desc, fk, min.Cancel), Payload: *min})
				}
				st := "returned"
				if len(keys) > 0 {
					st = "CRASH " + strings.Join(keys, ",")
				}
				var fk []string
				for _, f := range p.Faults {
					fk = append(fk, f.String())
				}
				name := "loader:" + p.Loader
				if p.W != nil {
					name = p.W.Name
				}
				res.Sample = map[string]any{"mode": p.Mode, "workload": name, "faults": fk, "cancel": p.Cancel, "stream": p.Stream, "outcome": st, "error": truncate(out.Ex.ErrString(), 200)}
			}
			return res
		},
		Replay: func(ctx *Ctx, payload json.RawMessage) (string, string) {
			var raw map[string]json.RawMessage
			_ = json.Unmarshal(payload, &raw)
			if _, fatal := raw["fatal_case"]; fatal {
				return "", "fatal cases are re-executed by the driver (check --only)"
			}
			var p c04Payload
			must(json.Unmarshal(payload, &p))
			dir := filepath.Join(ctx.Dirs.Root, "replay")
			defer os.RemoveAll(dir)
			out := c04Run(dir, &p)
			keys := make([]string, 0, len(out.Keys))
			for k := range out.Keys {
				keys = append(keys, k)
			}
			sort.Strings(keys)
			want := ctx.Opt["expect"]
			for _, k := range keys {
				if c04Key(k) == want {
					return want, out.Keys[k]
				}
			}
			if len(keys) > 0 {
				return c04Key(keys[0]), out.Keys[keys[0]]
			}
			return "", ""
		},
	})
}

var _ = errors.New
