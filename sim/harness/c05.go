package zzverif

import (
	"encoding/json"
	"fmt"
	"os"
	"path/filepath"
	"sort"
	"strings"

	"github.com/grafana/cog/internal/ast"
	"github.com/grafana/cog/internal/ast/compiler"
	"github.com/grafana/cog/internal/languages"
	"verif.local/simrt"
)

// C05 — every reference resolves: after parsing, after every language chain,
// after name-changing transformations, and under allowed_objects.

type c05Payload struct {
	Kind    string         `json:"kind"` // parse chain passes allowed
	W       *Workload      `json:"workload"`
	Sched   simrt.Schedule `json:"schedule"`
	Passes  []PassSpec     `json:"passes,omitempty"`
	Allowed []string       `json:"allowed,omitempty"`
	Pkg     string         `json:"pkg,omitempty"`
}

func kindsOf(ps []RefPos) string {
	seen := map[string]bool{}
	for _, p := range ps {
		seen[p.Kind] = true
	}
	var ks []string
	for k := range seen {
		ks = append(ks, k)
	}
	sort.Strings(ks)
	return strings.Join(ks, "+")
}

// byKind groups dangling positions by the kind of place that refers: one
// violation key per kind. (Which kinds of referrers an input happens to hold
// for an object a pass drops varies from input to input; a key over the whole
// set of kinds made every combination a different finding.)
func byKind(ps []RefPos) map[string][]RefPos {
	out := map[string][]RefPos{}
	for _, p := range ps {
		out[p.Kind] = append(out[p.Kind], p)
	}
	return out
}

func describeDangling(ps []RefPos) string {
	var out []string
	for i, p := range ps {
		if i >= 4 {
			out = append(out, fmt.Sprintf("... (%d more)", len(ps)-4))
			break
		}
		out = append(out, fmt.Sprintf("%s %s at %s", p.Kind, p.Target(), p.Where))
	}
	return strings.Join(out, "; ")
}

// loadSchemasOf runs LoadSchemas (and optionally every language chain) of w.
type c05Run struct {
	Schemas  ast.Schemas
	Langs    languages.Languages
	Contexts map[string]languages.Context
	Ex       *Exec
	Obs      *Observation
}

func c05Load(dir string, w *Workload, sched simrt.Schedule, chains bool) *c05Run {
	out := &c05Run{Contexts: map[string]languages.Context{}}
	opts := RunOpts{Inspect: true, OnSchemas: func(s ast.Schemas) { out.Schemas = s }}
	if chains {
		opts.OnContext = func(l string, c languages.Context) { out.Contexts[l] = c }
		opts.OnLanguages = func(l languages.Languages) { out.Langs = l }
	}
	ww := w
	if !chains {
		ww = w.Clone()
		ww.Languages = []LangSpec{{Name: "jsonschema", Flags: map[string]string{}}}
		ww.Builders = false
	}
	_, out.Obs, out.Ex = execWorkload(dir, ww, sched, nil, opts)
	return out
}

// c05Check evaluates one payload; returns violation key -> description.
func c05Check(ctx *Ctx, res *CaseResult, dir string, p *c05Payload) map[string]string {
	out := map[string]string{}
	switch p.Kind {
	case "parse", "chain":
		run := c05Load(dir, p.W, p.Sched, p.Kind == "chain")
		ctx.Account(run.Ex)
		res.Execs++
		if run.Schemas == nil {
			ctx.Count(p.Kind+".load_failed", 1)
			return out
		}
		before := Dangling(run.Schemas, nil)
		ctx.Count(p.Kind+".checked", 1)
		if p.Kind == "parse" {
			if len(before) > 0 {
				format := p.W.Inputs[0].Kind
				for kind, ps := range byKind(before) {
					out["dangling|parse:"+format+"|"+kind] = fmt.Sprintf("parser output of %s has dangling references: %s", p.W.Name, describeDangling(ps))
				}
			}
			return out
		}
		if len(before) > 0 {
			ctx.Count("chain.dirty_before", 1)
			return out
		}
		for _, l := range SortedKeys(run.Contexts) {
			c := run.Contexts[l]
			after := Dangling(c.Schemas, c.Builders)
			ctx.Count("chain.language_checked", 1)
			if len(after) > 0 {
				culprit := blameChainPass(run.Langs[l], run.Schemas)
				for kind, ps := range byKind(after) {
					out["dangling|chain:"+l+":"+culprit+"|"+kind] = fmt.Sprintf("the %s chain (pass %s) turns resolving references into dangling ones (%s): %s", l, culprit, p.W.Name, describeDangling(ps))
				}
			}
		}
	case "passes":
		run := c05Load(dir, p.W, simrt.Schedule{Default: simrt.Canonical}, false)
		ctx.Account(run.Ex)
		res.Execs++
		if run.Schemas == nil {
			ctx.Count("passes.load_failed", 1)
			return out
		}
		cur := run.Schemas
		if len(Dangling(cur, nil)) > 0 {
			ctx.Count("passes.dirty_before", 1)
			return out
		}
		for i, ps := range p.Passes {
			if OrphanMappings(cur) > 0 {
				ctx.Count("passes.orphan_mapping_stop", 1)
				break
			}
			if ps.Kind == "replace_reference" {
				// the claim covers replace_reference towards an object that exists
				// at this point of the history
				pkg, name, _ := strings.Cut(ps.To, ".")
				if _, found := cur.LocateObject(pkg, name); !found {
					ctx.Count("passes.replace_reference_target_gone", 1)
					continue
				}
			}
			pass, err := ps.Build()
			if err != nil {
				ctx.Count("passes.build_error", 1)
				return out
			}
			var next ast.Schemas
			CurrentDesc.Store("C05 pass " + ps.Kind)
			ex := Simulate(p.Sched, nil, pipelineMaxTicks, func() error {
				var err error
				next, err = compiler.Passes{pass}.Process(cur)
				return err
			})
			ctx.Account(ex)
			res.Execs++
			if ex.Panic != nil || ex.Err != nil || next == nil {
				ctx.Count("passes.step_failed", 1)
				return out
			}
			ctx.Count("passes.step_checked "+ps.Kind, 1)
			if d := Dangling(next, nil); len(d) > 0 {
				for kind, dps := range byKind(d) {
					k := "dangling|pass:" + ps.Kind + "|" + kind
					if _, dup := out[k]; !dup {
						out[k] = fmt.Sprintf("step %d %s %s leaves dangling references: %s", i, ps.Kind, passBrief(ps), describeDangling(dps))
					}
				}
				// the history goes on from the last clean IR, without this step
				continue
			}
			cur = next
		}
	case "allowed":
		full := p.W.Clone()
		full.Inputs[0].AllowedObjects = nil
		runFull := c05Load(dir, full, simrt.Schedule{Default: simrt.Canonical}, false)
		ctx.Account(runFull.Ex)
		res.Execs++
		if runFull.Schemas == nil {
			ctx.Count("allowed.load_failed", 1)
			return out
		}
		run := c05Load(dir, p.W, p.Sched, false)
		ctx.Account(run.Ex)
		res.Execs++
		if run.Schemas == nil {
			ctx.Count("allowed.filtered_load_failed", 1)
			return out
		}
		want := Reachable(runFull.Schemas, p.Pkg, p.Allowed)
		got := map[string]bool{}
		for _, s := range run.Schemas {
			if s.Package == p.Pkg && s.Objects != nil {
				for _, o := range s.Objects.Values() {
					got[o.Name] = true
				}
			}
		}
		ctx.Count("allowed.checked", 1)
		var missing, extra []string
		for n := range want {
			if !got[n] {
				missing = append(missing, n)
			}
		}
		for n := range got {
			if !want[n] {
				extra = append(extra, n)
			}
		}
		sort.Strings(missing)
		sort.Strings(extra)
		if len(missing) > 0 {
			out["allowed|missing"] = fmt.Sprintf("allowed_objects %v of %s: objects referenced (directly or indirectly) by the listed ones were dropped: %v", p.Allowed, p.Pkg, missing)
		}
		if len(extra) > 0 {
			out["allowed|extra"] = fmt.Sprintf("allowed_objects %v of %s: objects that nothing listed references survived: %v", p.Allowed, p.Pkg, extra)
		}
		// the closure keeps every reference *of the kept objects* resolving; the
		// entry point may legitimately name an object that was not listed.
		var d []RefPos
		for _, p := range Dangling(run.Schemas, nil) {
			if p.Kind == "entrypoint" || strings.Contains(p.Where, ".EntryPointType") {
				continue
			}
			d = append(d, p)
		}
		if len(d) > 0 && len(Dangling(runFull.Schemas, nil)) == 0 {
			out["allowed|dangling|"+kindsOf(d)] = fmt.Sprintf("allowed_objects %v of %s leaves dangling references: %s", p.Allowed, p.Pkg, describeDangling(d))
		}
	}
	return out
}

// blameChainPass re-applies the language's chain pass by pass (attribution
// only; the verdict comes from the real ContextForLanguage) and names the first
// pass after which a reference dangles.
func blameChainPass(lang languages.Language, schemas ast.Schemas) (culprit string) {
	culprit = "builders"
	if lang == nil {
		return
	}
	defer func() {
		if recover() != nil {
			culprit = "unknown"
		}
	}()
	var cur ast.Schemas = schemas.DeepCopy()
	for _, pass := range lang.CompilerPasses() {
		next, err := pass.Process(cur)
		if err != nil {
			return "unknown"
		}
		if len(Dangling(next, nil)) > 0 {
			name := fmt.Sprintf("%T", pass)
			return name[strings.LastIndex(name, ".")+1:]
		}
		cur = next
	}
	return
}

func passBrief(ps PassSpec) string {
	b, _ := json.Marshal(ps)
	return truncate(string(b), 200)
}

func singleInputWorkload(r *Rand, ctx *Ctx, opts GenOpts) *Workload {
	for {
		w := GenWorkload(r, ctx.Corpus, 1, opts)
		w.Inputs = w.Inputs[:1]
		return w
	}
}

// genNameChangingPasses draws a sequence from the name-changing alphabet.
func genNameChangingPasses(r *Rand, schemas ast.Schemas) []PassSpec {
	view := ViewOf(schemas)
	n := 1 + r.Intn(5)
	var out []PassSpec
	if r.Chance(1, 3) {
		// set-up step (not a name-changing pass): gives unions of references the
		// discriminator mapping the later renames have to keep in step
		out = append(out, PassSpec{Kind: "disjunction_infer_mapping"})
	}
	for i := 0; i < n; i++ {
		kind := Pick(r, nameChangingPasses)
		ps := GenPassSpec(r, view, kind)
		switch kind {
		case "replace_reference":
			// towards an existing object, spelled exactly
			p := view.pickPkg(r)
			if p == nil {
				continue
			}
			ps.To = p.Name + "." + Pick(r, p.Objects).Name
		case "rename_object":
			ps.To = fmt.Sprintf("%s%d", ps.To, i)
			if pkg, obj, ok := strings.Cut(ps.Obj, "."); ok && pkg != "" && r.Side("pkg-case").Chance(1, 5) {
				// the package spelled in another letter case: packages match exactly, so
				// this names nothing - and must then change nothing
				ps.Obj = strings.ToUpper(pkg[:1]) + pkg[1:] + "." + obj
			}
		case "duplicate_object":
			ps.To = fmt.Sprintf("%s%d", ps.To, i)
			ps.OmitFields = nil
		}
		out = append(out, ps)
	}
	return out
}

func init() {
	Register(&Property{
		ID: "C05",
		Setup: func(ctx *Ctx) {
			ctx.Corpus = LoadCorpus(ctx.RepoRoot)
		},
		RunCase: func(ctx *Ctx, seed uint64, idx int) *CaseResult {
			r := NewRand(seed)
			dir := filepath.Join(ctx.Dirs.Root, "case")
			defer os.RemoveAll(dir)
			res := &CaseResult{}
			p := &c05Payload{Sched: simrt.Schedule{Default: Pick(r, []simrt.Policy{simrt.Canonical, simrt.Reverse, simrt.Shuffle}), Seed: r.U64()}}
			switch idx % 6 {
			case 0:
				p.Kind = "parse"
				p.W = singleInputWorkload(r, ctx, GenOpts{NoAllOf: r.Bool()})
			case 1, 2:
				p.Kind = "chain"
				p.W = GenWorkload(r, ctx.Corpus, 4, GenOpts{NoAllOf: r.Chance(1, 2)})
				p.W.Builders = r.Chance(2, 3)
				if r.Chance(1, 3) {
					EnrichWorkload(r.Fork("enrich"), p.W, dir)
				}
				p.W.RepoTpl = ""
			case 3, 4:
				p.Kind = "passes"
				p.W = GenWorkload(r, ctx.Corpus, 1, GenOpts{NoAllOf: r.Bool()})
				constRefs := idx%12 == 3
				if constRefs {
					// constant references are the rarest kind of referrer (CUE only): a package
					// that has them, and a history that starts by copying their holder
					w := &Workload{Files: map[string]string{}, Languages: []LangSpec{{Name: "jsonschema", Flags: map[string]string{}}}, Types: true}
					in, _ := genPkgInput(r, w, "pkga", "cue", GenOpts{NoAllOf: true, ConstRefs: true})
					in.ForcedEnvelope = ""
					w.Inputs = []InputSpec{in}
					w.Name = "constrefs:cue"
					p.W = w
				}
				if s := dryLoad(dir, p.W); s != nil {
					p.Passes = genNameChangingPasses(r, s)
					if sr := r.Side("map-key-ref"); !constRefs && sr.Chance(1, 6) {
						// a reference used as the index type of a map (hand-written type): the
						// history starts by adding such an object, the name-changing passes follow
						view := ViewOf(s)
						if pk := view.pickPkg(sr); pk != nil && len(pk.Objects) > 0 {
							target := Pick(sr, pk.Objects).Name
							first := PassSpec{Kind: "add_object", Obj: pk.Name + ".KeyedBy" + target, Type: &TypeSpec{K: "map",
								Index: &TypeSpec{K: "ref", RefPkg: pk.Name, RefName: target}, Elem: &TypeSpec{K: "string"}}}
							p.Passes = append([]PassSpec{first}, p.Passes...)
							for i := range p.Passes[1:] {
								ps := &p.Passes[1+i]
								if (ps.Kind == "rename_object" || ps.Kind == "replace_reference") && sr.Chance(1, 2) {
									ps.Obj = pk.Name + "." + target
								}
							}
						}
					}
					if constRefs {
						first := PassSpec{Kind: "duplicate_object", Obj: "pkga.UsesKind", To: "pkga.UsesKindCopy"}
						if r.Bool() {
							first = PassSpec{Kind: "duplicate_object", Obj: "pkga.KindEnum", To: "pkga.KindEnumCopy"}
						}
						p.Passes = append([]PassSpec{first}, p.Passes...)
						for i := range p.Passes[1:] {
							ps := &p.Passes[1+i]
							if (ps.Kind == "rename_object" || ps.Kind == "replace_reference" || ps.Kind == "duplicate_object") && r.Chance(1, 2) {
								ps.Obj = "pkga." + Pick(r, []string{"KindEnum", "UsesKind", "UsesKindCopy", "KindEnumCopy"})
							}
						}
					}
				}
			default:
				p.Kind = "allowed"
				w := &Workload{Files: map[string]string{}, Languages: []LangSpec{{Name: "jsonschema", Flags: map[string]string{}}}, Types: true}
				format := Pick(r, []string{"jsonschema", "openapi", "openapi", "cue"})
				in, pkg := genPkgInput(r, w, "pkga", format, GenOpts{NoAllOf: r.Bool()})
				names := pkg.ObjectNames()
				n := 1 + r.Intn(3)
				for i := 0; i < n; i++ {
					in.AllowedObjects = append(in.AllowedObjects, Pick(r, names))
				}
				if r.Chance(1, 5) {
					in.AllowedObjects = append(in.AllowedObjects, "DoesNotExist")
				}
				in.AllowedObjects = uniqueStrings(in.AllowedObjects)
				w.Inputs = []InputSpec{in}
				w.Name = "allowed:" + format
				p.W, p.Allowed, p.Pkg = w, in.AllowedObjects, "pkga"
			}
			res.Nontrivial = append(res.Nontrivial, ShaStr(p.Kind+p.W.Fingerprint()+JSONHash(p.Passes)))
			found := c05Check(ctx, res, dir, p)
			res.Sample = map[string]any{"kind": p.Kind, "workload": p.W.Name, "passes": len(p.Passes), "allowed": p.Allowed, "violations": len(found)}
			for _, k := range SortedKeys(found) {
				pp := *p
				if p.Kind == "passes" {
					// shrink the pass list: drop steps while the key persists
					for i := 0; i < len(pp.Passes); i++ {
						c := pp
						c.Passes = append(append([]PassSpec(nil), pp.Passes[:i]...), pp.Passes[i+1:]...)
						if _, ok := c05Check(ctx, res, dir, &c)[k]; ok {
							pp = c
							i--
						}
					}
				}
				if p.Kind == "chain" {
					b := 10
					pp.W = shrinkWorkload(pp.W, func(w *Workload) bool {
						c := pp
						c.W = w
						_, ok := c05Check(ctx, res, dir, &c)[k]
						return ok
					}, &b)
				}
				what := found[k]
				if again, ok := c05Check(ctx, res, dir, &pp)[k]; ok {
					what = again
				}
				res.Violations = append(res.Violations, Violation{Key: k, What: what, Payload: pp})
			}
			return res
		},
		Replay: func(ctx *Ctx, payload json.RawMessage) (string, string) {
			var p c05Payload
			must(json.Unmarshal(payload, &p))
			dir := filepath.Join(ctx.Dirs.Root, "replay")
			defer os.RemoveAll(dir)
			found := c05Check(ctx, &CaseResult{}, dir, &p)
			if v, ok := found[ctx.Opt["expect"]]; ok {
				return ctx.Opt["expect"], v
			}
			for _, k := range SortedKeys(found) {
				return k, found[k]
			}
			return "", ""
		},
	})
}
