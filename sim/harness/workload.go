package zzverif

import (
	"context"
	"fmt"
	"net/http"
	"os"
	"path/filepath"
	"runtime/debug"
	"sort"
	"strings"

	"github.com/getkin/kin-openapi/openapi3"
	"github.com/grafana/cog/internal/ast"
	"github.com/grafana/cog/internal/ast/compiler"
	"github.com/grafana/cog/internal/codegen"
	"github.com/grafana/cog/internal/languages"
	"verif.local/simrt"
)

// InputSpec is one entry of the pipeline's `inputs:` list.
type InputSpec struct {
	Kind            string            `json:"kind"` // jsonschema | openapi | cue | kindsys_core | kindsys_composable
	Path            string            `json:"path,omitempty"` // relative to the run directory (file, or directory for cue)
	URL             string            `json:"url,omitempty"`
	Package         string            `json:"package,omitempty"`
	NoValidate      bool              `json:"no_validate,omitempty"`
	AllowedObjects  []string          `json:"allowed_objects,omitempty"`
	Transformations []string          `json:"transformations,omitempty"` // relative paths
	Metadata        map[string]string `json:"metadata,omitempty"`        // kind, variant, identifier
	ForcedEnvelope  string            `json:"forced_envelope,omitempty"`
	CueImports      []string          `json:"cue_imports,omitempty"` // relpath:importpath
	If              string            `json:"if,omitempty"`
}

// LangSpec is one entry of `output.languages`.
type LangSpec struct {
	Name  string            `json:"name"`
	Flags map[string]string `json:"flags,omitempty"` // yaml key -> yaml scalar text
}

// Workload is everything a pipeline run reads: the files on the (simulated)
// disk and the configuration. It is plain data so that a replay file can hold it.
type Workload struct {
	Name       string            `json:"name"`
	Files      map[string]string `json:"files"` // relative path -> content
	Inputs     []InputSpec       `json:"inputs"`
	CommonPass []string          `json:"common_passes,omitempty"` // relative paths of transformation files
	VeneerDirs []string          `json:"veneer_dirs,omitempty"`   // relative directories
	Languages  []LangSpec        `json:"languages"`
	Types      bool              `json:"types"`
	Builders   bool              `json:"builders"`
	Converters bool              `json:"converters"`
	APIRef     bool              `json:"api_reference"`
	Debug      bool              `json:"debug"`
	Params     map[string]string `json:"params,omitempty"`
	// CLIParams, when set, are the parameters given on the command line (codegen.Parameters)
	// instead of a copy of Params: they may override and refer to those of the file.
	CLIParams map[string]string `json:"cli_params,omitempty"`
	TplData    map[string]string `json:"templates_data,omitempty"`
	RepoTpl    string            `json:"repository_templates,omitempty"`
	OutputDir  string            `json:"output_dir,omitempty"` // default "out/%l"
	// FinalPasses: names of built-in passes a host program (cog used as a library) appends to every
	// language's chain through Transforms.FinalPasses; one pass object serves all languages.
	FinalPasses []string `json:"final_passes,omitempty"`
	// ConfigYAML, when set, is used verbatim as the pipeline file (fault injection on configs).
	ConfigYAML string `json:"config_yaml,omitempty"`
}

func (w *Workload) Clone() *Workload {
	c := *w
	c.Files = make(map[string]string, len(w.Files))
	for k, v := range w.Files {
		c.Files[k] = v
	}
	c.Inputs = make([]InputSpec, len(w.Inputs))
	for i, in := range w.Inputs {
		c.Inputs[i] = in
		c.Inputs[i].AllowedObjects = append([]string(nil), in.AllowedObjects...)
		c.Inputs[i].Transformations = append([]string(nil), in.Transformations...)
		c.Inputs[i].CueImports = append([]string(nil), in.CueImports...)
		if in.Metadata != nil {
			c.Inputs[i].Metadata = map[string]string{}
			for k, v := range in.Metadata {
				c.Inputs[i].Metadata[k] = v
			}
		}
	}
	c.CommonPass = append([]string(nil), w.CommonPass...)
	c.VeneerDirs = append([]string(nil), w.VeneerDirs...)
	c.Languages = make([]LangSpec, len(w.Languages))
	for i, l := range w.Languages {
		c.Languages[i] = LangSpec{Name: l.Name, Flags: map[string]string{}}
		for k, v := range l.Flags {
			c.Languages[i].Flags[k] = v
		}
	}
	c.FinalPasses = append([]string(nil), w.FinalPasses...)
	if w.CLIParams != nil {
		c.CLIParams = map[string]string{}
		for k, v := range w.CLIParams {
			c.CLIParams[k] = v
		}
	}
	if w.Params != nil {
		c.Params = map[string]string{}
		for k, v := range w.Params {
			c.Params[k] = v
		}
	}
	if w.TplData != nil {
		c.TplData = map[string]string{}
		for k, v := range w.TplData {
			c.TplData[k] = v
		}
	}
	return &c
}

// ExtraParams is what the run passes to codegen.Parameters.
func (w *Workload) ExtraParams() map[string]string {
	if w.CLIParams != nil {
		return w.CLIParams
	}
	return w.Params
}

func (w *Workload) Fingerprint() string {
	return JSONHash(w)
}

func (w *Workload) LangNames() []string {
	out := make([]string, 0, len(w.Languages))
	for _, l := range w.Languages {
		out = append(out, l.Name)
	}
	return out
}

func yq(s string) string {
	// single-quoted YAML scalar
	return "'" + strings.ReplaceAll(s, "'", "''") + "'"
}

// RenderConfig renders the pipeline YAML. All paths use %__config_dir% so
// that the pipeline does not depend on the process' working directory.
func (w *Workload) RenderConfig() string {
	if w.ConfigYAML != "" {
		return w.ConfigYAML
	}
	var b strings.Builder
	p := func(f string, a ...any) { fmt.Fprintf(&b, f, a...) }
	if w.Debug {
		p("debug: true\n")
	}
	if len(w.Params) > 0 {
		p("parameters:\n")
		for _, k := range SortedKeys(w.Params) {
			p("  %s: %s\n", k, yq(w.Params[k]))
		}
	}
	p("inputs:\n")
	for _, in := range w.Inputs {
		first := true
		item := func(f string, a ...any) {
			if first {
				p("  - "+f, a...)
				first = false
			} else {
				p("    "+f, a...)
			}
		}
		if in.If != "" {
			item("if: %s\n", yq(in.If))
		}
		item("%s:\n", in.Kind)
		f := func(f string, a ...any) { p("      "+f, a...) }
		abs := func(rel string) string { return "%__config_dir%/" + rel }
		switch in.Kind {
		case "jsonschema", "openapi":
			if in.URL != "" {
				f("url: %s\n", yq(in.URL))
			} else {
				f("path: %s\n", yq(abs(in.Path)))
			}
			if in.NoValidate {
				f("no_validate: true\n")
			}
		default:
			f("entrypoint: %s\n", yq(abs(in.Path)))
			if in.ForcedEnvelope != "" {
				f("forced_envelope: %s\n", yq(in.ForcedEnvelope))
			}
			if len(in.CueImports) > 0 {
				f("cue_imports:\n")
				for _, ci := range in.CueImports {
					f("  - %s\n", yq(abs(ci)))
				}
			}
		}
		if in.Package != "" {
			f("package: %s\n", yq(in.Package))
		}
		if len(in.AllowedObjects) > 0 {
			f("allowed_objects:\n")
			for _, o := range in.AllowedObjects {
				f("  - %s\n", yq(o))
			}
		}
		if len(in.Transformations) > 0 {
			f("transformations:\n")
			for _, t := range in.Transformations {
				f("  - %s\n", yq(abs(t)))
			}
		}
		if len(in.Metadata) > 0 {
			f("metadata:\n")
			for _, k := range SortedKeys(in.Metadata) {
				f("  %s: %s\n", k, yq(in.Metadata[k]))
			}
		}
	}
	if len(w.CommonPass) > 0 || len(w.VeneerDirs) > 0 {
		p("transformations:\n")
		if len(w.CommonPass) > 0 {
			p("  schemas:\n")
			for _, t := range w.CommonPass {
				p("    - %s\n", yq("%__config_dir%/"+t))
			}
		}
		if len(w.VeneerDirs) > 0 {
			p("  builders:\n")
			for _, t := range w.VeneerDirs {
				p("    - %s\n", yq("%__config_dir%/"+t))
			}
		}
	}
	p("output:\n")
	od := w.OutputDir
	if od == "" {
		od = "out/%l"
	}
	p("  directory: %s\n", yq(od))
	p("  types: %v\n  builders: %v\n  converters: %v\n  api_reference: %v\n", w.Types, w.Builders, w.Converters, w.APIRef)
	if w.RepoTpl != "" {
		p("  repository_templates: %s\n", yq("%__config_dir%/"+w.RepoTpl))
	}
	if len(w.TplData) > 0 {
		p("  templates_data:\n")
		for _, k := range SortedKeys(w.TplData) {
			p("    %s: %s\n", k, yq(w.TplData[k]))
		}
	}
	p("  languages:\n")
	for _, l := range w.Languages {
		if len(l.Flags) == 0 {
			p("    - %s: {}\n", l.Name)
			continue
		}
		p("    - %s:\n", l.Name)
		for _, k := range SortedKeys(l.Flags) {
			p("        %s: %s\n", k, l.Flags[k])
		}
	}
	return b.String()
}

// Materialise writes the workload's disk image under dir and returns the path
// of the pipeline file.
func (w *Workload) Materialise(dir string) (string, error) {
	for _, rel := range SortedKeys(w.Files) {
		p := filepath.Join(dir, rel)
		if err := os.MkdirAll(filepath.Dir(p), 0o755); err != nil {
			return "", err
		}
		if strings.HasSuffix(rel, "/") {
			if err := os.MkdirAll(p, 0o755); err != nil {
				return "", err
			}
			continue
		}
		if err := os.WriteFile(p, []byte(w.Files[rel]), 0o644); err != nil {
			return "", err
		}
	}
	for _, d := range w.VeneerDirs {
		_ = os.MkdirAll(filepath.Join(dir, d), 0o755)
	}
	cfg := filepath.Join(dir, "pipeline.yaml")
	if err := os.WriteFile(cfg, []byte(w.RenderConfig()), 0o644); err != nil {
		return "", err
	}
	return cfg, nil
}

// ---------------------------------------------------------------- running a pipeline

// RunDirs hands out one fresh directory per execution so that nothing on disk
// (and no cache keyed by path, see kin-openapi's URIMapCache) is shared.
type RunDirs struct {
	Root string
	n    int
}

func (d *RunDirs) Next() string {
	d.n++
	p := filepath.Join(d.Root, fmt.Sprintf("r%06d", d.n))
	must(os.MkdirAll(p, 0o755))
	return p
}

func (d *RunDirs) Release(p string) { _ = os.RemoveAll(p) }

// resetGlobals re-creates the one piece of process-global mutable state on
// cog's path: kin-openapi's package-level URI cache.
func resetGlobals() {
	openapi3.DefaultReadFromURI = openapi3.URIMapCache(openapi3.ReadFromURIs(openapi3.ReadFromHTTP(http.DefaultClient), openapi3.ReadFromFile))
}

// Observation is what a pipeline execution shows to the outside.
type Observation struct {
	Files   map[string]string `json:"files,omitempty"`   // path -> content hash
	IRLoad  string            `json:"ir_load,omitempty"` // JSON of LoadSchemas
	IRLang  map[string]string `json:"ir_lang,omitempty"` // language -> JSON of ContextForLanguage (schemas + builders)
	ErrRun  string            `json:"err_run,omitempty"`
	ErrLoad string            `json:"err_load,omitempty"`
	ErrLang map[string]string `json:"err_lang,omitempty"`
	// Panics recovered at stage boundaries (generate / load / per-language context)
	Panics []*PanicInfo `json:"panics,omitempty"`
}

// guard runs one stage of a pipeline execution and converts a panic of the
// system under test into an error, recording it, so that the other stages
// still run (C03/C07 compare outcomes; C04 reads obs.Panics).
func (o *Observation) guard(stage string, f func() error) (err error) {
	defer func() {
		if v := recover(); v != nil {
			stack := string(debug.Stack())
			if i := strings.Index(stack, "panic("); i >= 0 {
				stack = stack[i:]
			}
			pi := &PanicInfo{Class: classify(v), Value: truncate(fmt.Sprint(v), 500), Frame: innermostCogFrame(stack), Stack: truncate(stack, 4000)}
			if r := simrt.Current(); r != nil && r.Aborted != nil {
				if ov, ok := r.Aborted.(simrt.Overflow); ok {
					pi.Class, pi.Frame = "stack-overflow", innermostCogFrame(ov.Func+"(")
				} else if h, ok := r.Aborted.(simrt.Hang); ok {
					pi.Class, pi.Frame = "hang", innermostCogFrame(h.Func+"(")
				}
			}
			o.Panics = append(o.Panics, pi)
			err = fmt.Errorf("panic in stage %s: %s", stage, pi.Key())
		}
	}()
	return f()
}

// Summary returns name -> hash for every component, error *texts* excluded
// (only the ok/err status is part of the observation).
func (o *Observation) Summary() map[string]string {
	out := map[string]string{}
	out["run.status"] = status(o.ErrRun)
	out["load.status"] = status(o.ErrLoad)
	fk := SortedKeys(o.Files)
	out["files.paths"] = ShaStr(strings.Join(fk, "\n"))
	for _, k := range fk {
		out["file:"+k] = o.Files[k]
	}
	if o.IRLoad != "" {
		out["ir.load"] = ShaStr(o.IRLoad)
	}
	for _, l := range SortedKeys(o.IRLang) {
		out["ir."+l] = ShaStr(o.IRLang[l])
	}
	for _, l := range SortedKeys(o.ErrLang) {
		out["lang."+l+".status"] = status(o.ErrLang[l])
	}
	return out
}

func status(e string) string {
	if e == "" {
		return "ok"
	}
	return "err"
}

// DiffSummaries returns the sorted names of components that differ.
func DiffSummaries(a, b map[string]string) []string {
	seen := map[string]bool{}
	var out []string
	for k, v := range a {
		if b[k] != v {
			out = append(out, k)
		}
		seen[k] = true
	}
	for k := range b {
		if !seen[k] {
			out = append(out, k)
		}
	}
	sort.Strings(out)
	return out
}

type RunOpts struct {
	Generate bool // Pipeline.Run
	Inspect  bool // LoadSchemas + ContextForLanguage per language (what `cog inspect` does)
	KeepIR   bool // keep IR JSON text (else only when small)
	Ctx      context.Context
	// Hooks
	ExtraCommon compiler.Passes // appended to the common passes (probe passes)
	OnPipeline  func(p *codegen.Pipeline)
	OnContext   func(lang string, c languages.Context)
	OnSchemas   func(s ast.Schemas)
	OnLanguages func(l languages.Languages)
	// FinalPasses is copied from the workload by the callers of RunPipeline.
	FinalPasses []string
}

// FinalPassNames lists the built-in passes workloads may use as final passes.
var FinalPassNames = []string{"PrefixObjectNames", "InlineObjectsWithTypes", "AnonymousStructsToNamed", "DisjunctionToType", "NotRequiredFieldAsNullableType",
	"FlattenDisjunctions", "DisjunctionOfAnonymousStructsToExplicit", "AnonymousEnumToExplicitType", "DisjunctionWithNullToOptional", "PrefixEnumValues"}

func buildFinalPasses(names []string) compiler.Passes {
	var out compiler.Passes
	for _, n := range names {
		switch n {
		case "InlineObjectsWithTypes":
			out = append(out, &compiler.InlineObjectsWithTypes{InlineTypes: []ast.Kind{ast.KindScalar, ast.KindMap, ast.KindArray}})
		case "AnonymousStructsToNamed":
			out = append(out, &compiler.AnonymousStructsToNamed{})
		case "DisjunctionToType":
			out = append(out, &compiler.DisjunctionToType{})
		case "NotRequiredFieldAsNullableType":
			out = append(out, &compiler.NotRequiredFieldAsNullableType{})
		case "FlattenDisjunctions":
			out = append(out, &compiler.FlattenDisjunctions{})
		case "DisjunctionOfAnonymousStructsToExplicit":
			out = append(out, &compiler.DisjunctionOfAnonymousStructsToExplicit{})
		case "AnonymousEnumToExplicitType":
			out = append(out, &compiler.AnonymousEnumToExplicitType{})
		case "DisjunctionWithNullToOptional":
			out = append(out, &compiler.DisjunctionWithNullToOptional{})
		case "PrefixEnumValues":
			out = append(out, &compiler.PrefixEnumValues{})
		case "PrefixObjectNames":
			out = append(out, &compiler.PrefixObjectNames{Prefix: "Acme"})
		}
	}
	return out
}

// RunPipeline materialises nothing: cfgPath must already exist. It performs
// the executions requested in opts with the *real* cog entry points.
func RunPipeline(cfgPath string, params map[string]string, opts RunOpts) (*Observation, error) {
	ctx := opts.Ctx
	if ctx == nil {
		ctx = context.Background()
	}
	obs := &Observation{Files: map[string]string{}, IRLang: map[string]string{}, ErrLang: map[string]string{}}
	resetGlobals()
	if params == nil {
		params = map[string]string{}
	}
	var firstErr error
	if opts.Generate {
		err := obs.guard("generate", func() error {
			pipeline, err := codegen.PipelineFromFile(cfgPath, codegen.Parameters(params))
			if err != nil {
				return err
			}
			if len(opts.FinalPasses) > 0 {
				pipeline.Transforms.FinalPasses = buildFinalPasses(opts.FinalPasses)
			}
			if opts.OnPipeline != nil {
				opts.OnPipeline(pipeline)
			}
			fs, err := pipeline.Run(ctx)
			if err != nil {
				return err
			}
			for _, f := range fs.AsFiles() {
				obs.Files[f.RelativePath] = Sha(f.Data)
			}
			return nil
		})
		if err != nil {
			obs.ErrRun = err.Error()
			firstErr = err
		}
		if r := simrt.Current(); r != nil && r.Aborted != nil {
			return obs, firstErr
		}
	}
	if opts.Inspect {
		resetGlobals()
		var pipeline *codegen.Pipeline
		var schemas ast.Schemas
		err := obs.guard("load", func() error {
			var err error
			pipeline, err = codegen.PipelineFromFile(cfgPath, codegen.Parameters(params))
			if err != nil {
				return err
			}
			if len(opts.FinalPasses) > 0 {
				pipeline.Transforms.FinalPasses = buildFinalPasses(opts.FinalPasses)
			}
			if opts.OnPipeline != nil {
				opts.OnPipeline(pipeline)
			}
			schemas, err = pipeline.LoadSchemas(ctx)
			return err
		})
		if err != nil {
			obs.ErrLoad = err.Error()
			if firstErr == nil {
				firstErr = err
			}
			return obs, firstErr
		}
		if opts.OnSchemas != nil {
			simrt.Suspend(func() { opts.OnSchemas(schemas) })
		}
		simrt.Suspend(func() { obs.IRLoad = JSONString(schemas) })
		langs, err := pipeline.OutputLanguages()
		if err != nil {
			obs.ErrLoad = err.Error()
			return obs, err
		}
		if opts.OnLanguages != nil {
			opts.OnLanguages(langs)
		}
		// `cog inspect` handles one language per invocation; the harness
		// walks them in sorted order (an order of its own choosing).
		names := make([]string, 0, len(langs))
		for n := range langs {
			names = append(names, n)
		}
		sort.Strings(names)
		for _, n := range names {
			var c languages.Context
			err := obs.guard("context:"+n, func() error {
				var err error
				c, err = pipeline.ContextForLanguage(langs[n], schemas)
				return err
			})
			if err != nil {
				obs.ErrLang[n] = err.Error()
				if firstErr == nil {
					firstErr = err
				}
				if r := simrt.Current(); r != nil && r.Aborted != nil {
					break
				}
				continue
			}
			if opts.OnContext != nil {
				simrt.Suspend(func() { opts.OnContext(n, c) })
			}
			simrt.Suspend(func() { obs.IRLang[n] = JSONString(c) })
		}
	}
	return obs, firstErr
}
