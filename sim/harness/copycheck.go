package zzverif

import (
	"fmt"
	"reflect"
	"sort"
	"strings"
)

// copyDiff compares a value with its copy field by field and returns the path
// of the first difference ("" when equal). nil and empty slices/maps are the
// same thing (the copy routines normalise them).
func copyDiff(a, b reflect.Value, path string, depth int) string {
	if depth > 200 {
		return ""
	}
	if !a.IsValid() || !b.IsValid() {
		if a.IsValid() != b.IsValid() {
			return path + ": one side invalid"
		}
		return ""
	}
	if a.Type() != b.Type() {
		return fmt.Sprintf("%s: type %s vs %s", path, a.Type(), b.Type())
	}
	switch a.Kind() {
	case reflect.Ptr:
		if a.IsNil() || b.IsNil() {
			if a.IsNil() != b.IsNil() {
				return fmt.Sprintf("%s: nil-ness differs (original nil=%v, copy nil=%v)", path, a.IsNil(), b.IsNil())
			}
			return ""
		}
		return copyDiff(a.Elem(), b.Elem(), path, depth+1)
	case reflect.Interface:
		if a.IsNil() || b.IsNil() {
			if a.IsNil() != b.IsNil() {
				return fmt.Sprintf("%s: nil-ness differs (original nil=%v, copy nil=%v)", path, a.IsNil(), b.IsNil())
			}
			return ""
		}
		return copyDiff(a.Elem(), b.Elem(), path, depth+1)
	case reflect.Struct:
		for i := 0; i < a.NumField(); i++ {
			if d := copyDiff(a.Field(i), b.Field(i), path+"."+a.Type().Field(i).Name, depth+1); d != "" {
				return d
			}
		}
		return ""
	case reflect.Slice, reflect.Array:
		if a.Len() != b.Len() {
			return fmt.Sprintf("%s: length %d vs %d", path, a.Len(), b.Len())
		}
		for i := 0; i < a.Len(); i++ {
			if d := copyDiff(a.Index(i), b.Index(i), fmt.Sprintf("%s[%d]", path, i), depth+1); d != "" {
				return d
			}
		}
		return ""
	case reflect.Map:
		if a.Len() != b.Len() {
			return fmt.Sprintf("%s: map size %d vs %d", path, a.Len(), b.Len())
		}
		for _, k := range a.MapKeys() {
			bv := b.MapIndex(k)
			if !bv.IsValid() {
				return fmt.Sprintf("%s[%v]: missing in copy", path, k)
			}
			if d := copyDiff(a.MapIndex(k), bv, fmt.Sprintf("%s[%v]", path, k), depth+1); d != "" {
				return d
			}
		}
		return ""
	case reflect.Func, reflect.Chan, reflect.UnsafePointer:
		return ""
	case reflect.Bool:
		if a.Bool() != b.Bool() {
			return fmt.Sprintf("%s: %v vs %v", path, a.Bool(), b.Bool())
		}
	case reflect.String:
		if a.String() != b.String() {
			return fmt.Sprintf("%s: %q vs %q", path, a.String(), b.String())
		}
	case reflect.Int, reflect.Int8, reflect.Int16, reflect.Int32, reflect.Int64:
		if a.Int() != b.Int() {
			return fmt.Sprintf("%s: %d vs %d", path, a.Int(), b.Int())
		}
	case reflect.Uint, reflect.Uint8, reflect.Uint16, reflect.Uint32, reflect.Uint64, reflect.Uintptr:
		if a.Uint() != b.Uint() {
			return fmt.Sprintf("%s: %d vs %d", path, a.Uint(), b.Uint())
		}
	case reflect.Float32, reflect.Float64:
		if a.Float() != b.Float() {
			return fmt.Sprintf("%s: %v vs %v", path, a.Float(), b.Float())
		}
	case reflect.Complex64, reflect.Complex128:
		if a.Complex() != b.Complex() {
			return path + ": complex differs"
		}
	}
	return ""
}

// location is one mutable memory location reachable from a value.
type location struct {
	path   string
	opaque bool // reached through an interface (`any`) field
}

// collectLocations records the address of every slice backing array (len>0),
// map and pointer target reachable from v through declared fields.
func collectLocations(v reflect.Value, path string, opaque bool, out map[uintptr]location, depth int) {
	if depth > 200 || !v.IsValid() {
		return
	}
	switch v.Kind() {
	case reflect.Ptr:
		if v.IsNil() {
			return
		}
		p := v.Pointer()
		if _, seen := out[p]; seen {
			return
		}
		out[p] = location{path, opaque}
		collectLocations(v.Elem(), path, opaque, out, depth+1)
	case reflect.Interface:
		if v.IsNil() {
			return
		}
		collectLocations(v.Elem(), path, true, out, depth+1)
	case reflect.Struct:
		for i := 0; i < v.NumField(); i++ {
			collectLocations(v.Field(i), path+"."+v.Type().Field(i).Name, opaque, out, depth+1)
		}
	case reflect.Slice:
		if v.Len() == 0 {
			return
		}
		p := v.Pointer()
		if _, seen := out[p]; !seen {
			out[p] = location{path, opaque}
		}
		for i := 0; i < v.Len(); i++ {
			collectLocations(v.Index(i), fmt.Sprintf("%s[%d]", path, i), opaque, out, depth+1)
		}
	case reflect.Array:
		for i := 0; i < v.Len(); i++ {
			collectLocations(v.Index(i), fmt.Sprintf("%s[%d]", path, i), opaque, out, depth+1)
		}
	case reflect.Map:
		if v.IsNil() {
			return
		}
		p := v.Pointer()
		if _, seen := out[p]; seen {
			return
		}
		out[p] = location{path, opaque}
		it := v.MapRange()
		for it.Next() {
			collectLocations(it.Value(), fmt.Sprintf("%s[%v]", path, it.Key()), opaque, out, depth+1)
		}
	}
}

// indexRe-free normalisation of a path: drop indices so that keys are stable.
func normPath(p string) string {
	var b strings.Builder
	skip := 0
	for _, c := range p {
		switch {
		case c == '[':
			skip++
			b.WriteString("[]")
		case c == ']':
			skip--
		case skip == 0:
			b.WriteRune(c)
		}
	}
	return b.String()
}

// sharedBetween lists the locations reachable from both values: typed ones and
// opaque ones (reached through an `any` payload) separately.
func sharedBetween(orig, cp reflect.Value) (typed []string, opaque []string) {
	la, lb := map[uintptr]location{}, map[uintptr]location{}
	collectLocations(orig, "", false, la, 0)
	collectLocations(cp, "", false, lb, 0)
	seenT, seenO := map[string]bool{}, map[string]bool{}
	for p, a := range la {
		b, ok := lb[p]
		if !ok {
			continue
		}
		np := normPath(a.path)
		if a.opaque || b.opaque {
			if !seenO[np] {
				seenO[np] = true
				opaque = append(opaque, np)
			}
		} else if !seenT[np] {
			seenT[np] = true
			typed = append(typed, np)
		}
	}
	sort.Strings(typed)
	sort.Strings(opaque)
	return
}

// shortestFirst orders paths so that the outermost shared location comes first.
func shortestFirst(ps []string) []string {
	out := append([]string(nil), ps...)
	sort.Slice(out, func(i, j int) bool {
		if len(out[i]) != len(out[j]) {
			return len(out[i]) < len(out[j])
		}
		return out[i] < out[j]
	})
	return out
}
