package zzverif

import (
	"encoding/json"
	"fmt"
	"sort"
	"strings"

	"github.com/grafana/cog/internal/ast"
)

// The reference models of C15 work on a plain-data mirror of the IR: each
// schema is {Package, Metadata, EntryPoint, EntryPointType, Objects: ordered
// list of generic JSON objects}. Nothing here calls into cog's passes, visitor
// or matching helpers: the models are written from the documentation and the
// statement (package names match exactly, object and field names
// case-insensitively).

type mObj = map[string]any

type mSchema struct {
	Package        string
	Metadata       mObj
	EntryPoint     string
	EntryPointType any
	Objects        []mObj
}

type mIR []*mSchema

func toGeneric(v any) any {
	b, err := json.Marshal(v)
	if err != nil {
		return "marshal-error:" + err.Error()
	}
	var out any
	_ = json.Unmarshal(b, &out)
	return out
}

func mirrorOf(schemas ast.Schemas) mIR {
	var out mIR
	for _, s := range schemas {
		ms := &mSchema{Package: s.Package, EntryPoint: s.EntryPoint}
		if g, ok := toGeneric(s.Metadata).(map[string]any); ok {
			ms.Metadata = g
		}
		ms.EntryPointType = toGeneric(s.EntryPointType)
		if s.Objects != nil {
			for _, o := range s.Objects.Values() {
				if g, ok := toGeneric(o).(map[string]any); ok {
					ms.Objects = append(ms.Objects, g)
				}
			}
		}
		out = append(out, ms)
	}
	return out
}

func cloneGeneric(v any) any {
	switch x := v.(type) {
	case map[string]any:
		m := make(map[string]any, len(x))
		for k, e := range x {
			m[k] = cloneGeneric(e)
		}
		return m
	case []any:
		l := make([]any, len(x))
		for i, e := range x {
			l[i] = cloneGeneric(e)
		}
		return l
	}
	return v
}

func (ir mIR) clone() mIR {
	var out mIR
	for _, s := range ir {
		c := &mSchema{Package: s.Package, EntryPoint: s.EntryPoint, EntryPointType: cloneGeneric(s.EntryPointType)}
		if s.Metadata != nil {
			c.Metadata = cloneGeneric(s.Metadata).(map[string]any)
		}
		for _, o := range s.Objects {
			c.Objects = append(c.Objects, cloneGeneric(o).(map[string]any))
		}
		out = append(out, c)
	}
	return out
}

func fold(a, b string) bool { return strings.EqualFold(a, b) }

func str(v any) string {
	s, _ := v.(string)
	return s
}

func splitRef(ref string) (string, string) {
	p, o, _ := strings.Cut(ref, ".")
	return p, o
}

func splitFieldRef(ref string) (string, string, string) {
	parts := strings.Split(ref, ".")
	if len(parts) != 3 {
		return "", "", ""
	}
	return parts[0], parts[1], parts[2]
}

func objType(o mObj) mObj {
	t, _ := o["Type"].(map[string]any)
	return t
}

func structFields(t mObj) ([]any, bool) {
	if t == nil || str(t["Kind"]) != "struct" {
		return nil, false
	}
	st, ok := t["Struct"].(map[string]any)
	if !ok {
		return nil, false
	}
	f, _ := st["Fields"].([]any)
	return f, true
}

func setStructFields(t mObj, fields []any) {
	st, _ := t["Struct"].(map[string]any)
	if st == nil {
		st = map[string]any{}
		t["Struct"] = st
	}
	if fields == nil {
		// encoding/json renders a nil slice as null; the IR renders Fields always
		st["Fields"] = nil
		return
	}
	st["Fields"] = fields
}

// walkTypes calls fn on every type position below t (t included), pre-order.
// It covers every place a type can sit, map index types and intersection
// branches included.
func walkTypes(t any, fn func(t mObj)) {
	m, ok := t.(map[string]any)
	if !ok {
		return
	}
	fn(m)
	if a, ok := m["Array"].(map[string]any); ok {
		walkTypes(a["ValueType"], fn)
	}
	if mp, ok := m["Map"].(map[string]any); ok {
		walkTypes(mp["IndexType"], fn)
		walkTypes(mp["ValueType"], fn)
	}
	if st, ok := m["Struct"].(map[string]any); ok {
		if fs, ok := st["Fields"].([]any); ok {
			for _, f := range fs {
				if fm, ok := f.(map[string]any); ok {
					walkTypes(fm["Type"], fn)
				}
			}
		}
	}
	if d, ok := m["Disjunction"].(map[string]any); ok {
		if bs, ok := d["Branches"].([]any); ok {
			for _, b := range bs {
				walkTypes(b, fn)
			}
		}
	}
	if in, ok := m["Intersection"].(map[string]any); ok {
		if bs, ok := in["Branches"].([]any); ok {
			for _, b := range bs {
				walkTypes(b, fn)
			}
		}
	}
}

// typeSpecGeneric renders a TypeSpec the way the loaded ast.Type marshals.
func typeSpecGeneric(t *TypeSpec) any {
	at, err := typeSpecToAST(t)
	if err != nil {
		return nil
	}
	return toGeneric(at)
}

// modelResult is what a reference model predicts.
type modelResult struct {
	IR       mIR
	Touched  map[string]bool // "pkg.Object" (name before the pass) of objects the pass may change
	Skip     string          // non-empty: the situation is ambiguous / undocumented, nothing is judged
	WantSame bool            // the target does not exist: the IR must be unchanged
	// LooseKeys lists object-level JSON keys whose value is not judged on touched objects
	LooseKeys []string
}

func countMatches(ir mIR, pkg, obj string) int {
	n := 0
	for _, s := range ir {
		if s.Package != pkg {
			continue
		}
		for _, o := range s.Objects {
			if fold(str(o["Name"]), obj) {
				n++
			}
		}
	}
	return n
}

func hasExact(ir mIR, pkg, obj string) bool {
	for _, s := range ir {
		if s.Package != pkg {
			continue
		}
		for _, o := range s.Objects {
			if str(o["Name"]) == obj {
				return true
			}
		}
	}
	return false
}

func hasPkg(ir mIR, pkg string) bool {
	for _, s := range ir {
		if s.Package == pkg {
			return true
		}
	}
	return false
}

func objKey(pkg string, o mObj) string { return pkg + "." + str(o["Name"]) }

// applyModel predicts the effect of ps on ir.
func applyModel(ir mIR, ps PassSpec) modelResult {
	out := ir.clone()
	res := modelResult{IR: out, Touched: map[string]bool{}}
	eachObj := func(fn func(s *mSchema, i int, o mObj)) {
		for _, s := range out {
			for i, o := range s.Objects {
				fn(s, i, o)
			}
		}
	}
	switch ps.Kind {
	case "rename_object":
		pkg, obj := splitRef(ps.Obj)
		n := countMatches(out, pkg, obj)
		if n == 0 {
			// references to a name that no object bears only exist in an IR that
			// is already inconsistent; whether they follow the rename is not documented
			named := false
			for _, s := range out {
				if s.Package == pkg && fold(s.EntryPoint, obj) {
					named = true
				}
				chk := func(t any) {
					walkTypes(t, func(t mObj) {
						if r, ok := t["Ref"].(map[string]any); ok && str(r["ReferredPkg"]) == pkg && fold(str(r["ReferredType"]), obj) {
							named = true
						}
						if r, ok := t["ConstantReference"].(map[string]any); ok && str(r["ReferredPkg"]) == pkg && fold(str(r["ReferredType"]), obj) {
							named = true
						}
					})
				}
				chk(s.EntryPointType)
				for _, o := range s.Objects {
					chk(o["Type"])
				}
			}
			if named {
				res.Skip = "dangling references to the absent target exist"
				return res
			}
			res.WantSame = true
			return res
		}
		if n > 1 {
			res.Skip = "several objects match case-insensitively"
			return res
		}
		var oldName string
		eachObj(func(s *mSchema, _ int, o mObj) {
			if s.Package == pkg && fold(str(o["Name"]), obj) {
				oldName = str(o["Name"])
			}
		})
		if oldName != ps.To && hasExact(out, pkg, ps.To) {
			res.Skip = "the new name is already taken"
			return res
		}
		renameRefs := func(t any, owner string) {
			walkTypes(t, func(t mObj) {
				if r, ok := t["Ref"].(map[string]any); ok && str(t["Kind"]) == "ref" && str(r["ReferredPkg"]) == pkg && fold(str(r["ReferredType"]), obj) {
					r["ReferredType"] = ps.To
					res.Touched[owner] = true
				}
				if r, ok := t["ConstantReference"].(map[string]any); ok && str(r["ReferredPkg"]) == pkg && fold(str(r["ReferredType"]), obj) {
					r["ReferredType"] = ps.To
					res.Touched[owner] = true
				}
				if d, ok := t["Disjunction"].(map[string]any); ok {
					if mp, ok := d["DiscriminatorMapping"].(map[string]any); ok {
						// mapping values name branch types
						bs, _ := d["Branches"].([]any)
						for _, b := range bs {
							bm, _ := b.(map[string]any)
							r, _ := bm["Ref"].(map[string]any)
							if r == nil || str(r["ReferredPkg"]) != pkg || !fold(str(r["ReferredType"]), obj) {
								continue
							}
							for k, v := range mp {
								if str(v) == oldName {
									mp[k] = ps.To
									res.Touched[owner] = true
								}
							}
						}
					}
				}
			})
		}
		for _, s := range out {
			for _, o := range s.Objects {
				k := objKey(s.Package, o)
				renameRefs(o["Type"], k)
				if s.Package == pkg && fold(str(o["Name"]), obj) {
					o["Name"] = ps.To
					if sr, ok := o["SelfRef"].(map[string]any); ok {
						sr["ReferredType"] = ps.To
					}
					res.Touched[k] = true
				}
			}
			before := toJSON(s.EntryPointType)
			renameRefs(s.EntryPointType, "")
			_ = before
			if s.Package == pkg && fold(s.EntryPoint, obj) {
				s.EntryPoint = ps.To
			}
		}
	case "omit":
		hit := false
		for _, s := range out {
			var kept []mObj
			for _, o := range s.Objects {
				drop := false
				for _, ref := range ps.Objects {
					pkg, obj := splitRef(ref)
					if s.Package == pkg && fold(str(o["Name"]), obj) {
						drop = true
					}
				}
				if drop {
					hit = true
					continue
				}
				kept = append(kept, o)
			}
			s.Objects = kept
		}
		res.WantSame = !hit
	case "omit_fields":
		hit := false
		eachObj(func(s *mSchema, _ int, o mObj) {
			fs, ok := structFields(objType(o))
			if !ok {
				return
			}
			kept := []any{}
			for _, f := range fs {
				fm, _ := f.(map[string]any)
				drop := false
				for _, ref := range ps.Fields {
					pkg, obj, fld := splitFieldRef(ref)
					if s.Package == pkg && fold(str(o["Name"]), obj) && fold(str(fm["Name"]), fld) {
						drop = true
					}
				}
				if drop {
					hit = true
					res.Touched[objKey(s.Package, o)] = true
					continue
				}
				kept = append(kept, f)
			}
			if len(kept) != len(fs) {
				setStructFields(objType(o), kept)
			}
		})
		res.WantSame = !hit
	case "add_fields":
		pkg, obj := splitRef(ps.Obj)
		if countMatches(out, pkg, obj) == 0 {
			res.WantSame = true
			return res
		}
		eachObj(func(s *mSchema, _ int, o mObj) {
			if s.Package != pkg || !fold(str(o["Name"]), obj) {
				return
			}
			fs, ok := structFields(objType(o))
			if !ok {
				res.Skip = "target is not a struct (documented as an error)"
				return
			}
			for _, nf := range ps.NewFields {
				exists := false
				for _, f := range fs {
					if fm, _ := f.(map[string]any); str(fm["Name"]) == nf.Name {
						exists = true
					}
				}
				if exists {
					continue
				}
				af, err := fieldSpecToAST(nf)
				if err != nil {
					res.Skip = "field spec not expressible"
					return
				}
				fs = append(fs, toGeneric(af))
				res.Touched[objKey(s.Package, o)] = true
			}
			setStructFields(objType(o), fs)
		})
	case "add_object":
		pkg, obj := splitRef(ps.Obj)
		if !hasPkg(out, pkg) {
			res.WantSame = true
			return res
		}
		if countMatches(out, pkg, obj) > 0 {
			res.Skip = "an object of that name exists (undocumented)"
			return res
		}
		at, err := typeSpecToAST(ps.Type)
		if err != nil {
			res.Skip = "type spec not expressible"
			return res
		}
		no := ast.NewObject(pkg, obj, at)
		no.Comments = ps.Comments
		for _, s := range out {
			if s.Package == pkg {
				s.Objects = append(s.Objects, toGeneric(no).(map[string]any))
				res.Touched[pkg+"."+obj] = true
			}
		}
	case "duplicate_object":
		pkg, obj := splitRef(ps.Obj)
		dpkg, dobj := splitRef(ps.To)
		if countMatches(out, pkg, obj) == 0 || !hasPkg(out, dpkg) {
			res.WantSame = true
			return res
		}
		if !hasExact(out, pkg, obj) {
			res.Skip = "source spelled in another letter case (lookup rule undocumented for this pass)"
			return res
		}
		if countMatches(out, dpkg, dobj) > 0 {
			res.Skip = "an object of the new name exists (undocumented)"
			return res
		}
		var src mObj
		eachObj(func(s *mSchema, _ int, o mObj) {
			if s.Package == pkg && str(o["Name"]) == obj && src == nil {
				src = o
			}
		})
		dup := cloneGeneric(src).(map[string]any)
		dup["Name"] = dobj
		dup["SelfRef"] = map[string]any{"ReferredPkg": dpkg, "ReferredType": dobj}
		if fs, ok := structFields(objType(dup)); ok && len(ps.OmitFields) > 0 {
			kept := []any{}
			for _, f := range fs {
				fm, _ := f.(map[string]any)
				drop := false
				for _, of := range ps.OmitFields {
					if fold(str(fm["Name"]), of) {
						drop = true
					}
				}
				if !drop {
					kept = append(kept, f)
				}
			}
			setStructFields(objType(dup), kept)
		}
		for _, s := range out {
			if s.Package == dpkg {
				s.Objects = append(s.Objects, dup)
				res.Touched[dpkg+"."+dobj] = true
			}
		}
	case "retype_object":
		pkg, obj := splitRef(ps.Obj)
		if countMatches(out, pkg, obj) == 0 {
			res.WantSame = true
			return res
		}
		g := typeSpecGeneric(ps.Type)
		if g == nil {
			res.Skip = "type spec not expressible"
			return res
		}
		eachObj(func(s *mSchema, _ int, o mObj) {
			if s.Package == pkg && fold(str(o["Name"]), obj) {
				o["Type"] = cloneGeneric(g)
				if ps.Comments != nil {
					o["Comments"] = toGeneric(ps.Comments)
				}
				res.Touched[objKey(s.Package, o)] = true
			}
		})
	case "retype_field":
		pkg, obj, fld := splitFieldRef(ps.Fields[0])
		g := typeSpecGeneric(ps.Type)
		if g == nil {
			res.Skip = "type spec not expressible"
			return res
		}
		hit := false
		eachObj(func(s *mSchema, _ int, o mObj) {
			if s.Package != pkg || !fold(str(o["Name"]), obj) {
				return
			}
			fs, ok := structFields(objType(o))
			if !ok {
				return
			}
			n := 0
			for _, f := range fs {
				if fm, _ := f.(map[string]any); fold(str(fm["Name"]), fld) {
					n++
				}
			}
			if n > 1 {
				res.Skip = "several fields match case-insensitively"
				return
			}
			for _, f := range fs {
				fm, _ := f.(map[string]any)
				if fold(str(fm["Name"]), fld) {
					fm["Type"] = cloneGeneric(g)
					if ps.Comments != nil {
						fm["Comments"] = toGeneric(ps.Comments)
					}
					hit = true
					res.Touched[objKey(s.Package, o)] = true
				}
			}
		})
		res.WantSame = !hit
	case "fields_set_required", "fields_set_not_required":
		hit := false
		eachObj(func(s *mSchema, _ int, o mObj) {
			fs, ok := structFields(objType(o))
			if !ok {
				return
			}
			for _, f := range fs {
				fm, _ := f.(map[string]any)
				for _, ref := range ps.Fields {
					pkg, obj, fld := splitFieldRef(ref)
					if s.Package == pkg && fold(str(o["Name"]), obj) && fold(str(fm["Name"]), fld) {
						ft, _ := fm["Type"].(map[string]any)
						if ft != nil {
							ft["Nullable"] = ps.Kind == "fields_set_not_required"
						}
						fm["Required"] = ps.Kind == "fields_set_required"
						hit = true
						res.Touched[objKey(s.Package, o)] = true
					}
				}
			}
		})
		res.WantSame = !hit
	case "fields_set_default":
		hit := false
		eachObj(func(s *mSchema, _ int, o mObj) {
			fs, ok := structFields(objType(o))
			if !ok {
				return
			}
			for _, f := range fs {
				fm, _ := f.(map[string]any)
				hits := 0
				for _, kv := range ps.Defaults {
					pkg, obj, fld := splitFieldRef(kv[0].(string))
					if s.Package == pkg && fold(str(o["Name"]), obj) && fold(str(fm["Name"]), fld) {
						hits++
						ft, _ := fm["Type"].(map[string]any)
						if ft != nil {
							ft["Default"] = toGeneric(kv[1])
						}
						hit = true
						res.Touched[objKey(s.Package, o)] = true
					}
				}
				if hits > 1 {
					res.Skip = "two keys match one field"
				}
			}
		})
		res.WantSame = !hit
	case "replace_reference":
		pkg, obj := splitRef(ps.Obj)
		tpkg, tobj := splitRef(ps.To)
		hit := false
		rep := func(t any, owner string) {
			// first the discriminator mappings, which name the branches about to be replaced
			walkTypes(t, func(t mObj) {
				d, ok := t["Disjunction"].(map[string]any)
				if !ok || str(t["Kind"]) != "disjunction" {
					return
				}
				mapping, _ := d["DiscriminatorMapping"].(map[string]any)
				branches, _ := d["Branches"].([]any)
				for _, b := range branches {
					bt, _ := b.(map[string]any)
					r, ok := bt["Ref"].(map[string]any)
					if !ok || str(bt["Kind"]) != "ref" || str(r["ReferredPkg"]) != pkg || !fold(str(r["ReferredType"]), obj) {
						continue
					}
					for k, v := range mapping {
						if str(v) == str(r["ReferredType"]) {
							mapping[k] = tobj
						}
					}
				}
			})
			walkTypes(t, func(t mObj) {
				if r, ok := t["Ref"].(map[string]any); ok && str(t["Kind"]) == "ref" && str(r["ReferredPkg"]) == pkg && fold(str(r["ReferredType"]), obj) {
					r["ReferredPkg"], r["ReferredType"] = tpkg, tobj
					hit = true
					if owner != "" {
						res.Touched[owner] = true
					}
				}
			})
		}
		for _, s := range out {
			for _, o := range s.Objects {
				rep(o["Type"], objKey(s.Package, o))
			}
			rep(s.EntryPointType, "")
		}
		res.WantSame = !hit
	case "constant_to_enum":
		hit := false
		eachObj(func(s *mSchema, _ int, o mObj) {
			for _, ref := range ps.Objects {
				pkg, obj := splitRef(ref)
				if s.Package != pkg || !fold(str(o["Name"]), obj) {
					continue
				}
				t := objType(o)
				sc, _ := t["Scalar"].(map[string]any)
				if str(t["Kind"]) != "scalar" || sc == nil || str(sc["ScalarKind"]) != "string" {
					continue
				}
				v, isStr := sc["Value"].(string)
				if !isStr {
					continue
				}
				o["Type"] = toGeneric(ast.NewEnum([]ast.EnumValue{{Type: ast.String(), Name: v, Value: v}}))
				hit = true
				res.Touched[objKey(s.Package, o)] = true
			}
		})
		res.WantSame = !hit
	case "trim_enum_values":
		hit := false
		trim := func(t any, owner string) {
			walkTypes(t, func(t mObj) {
				e, ok := t["Enum"].(map[string]any)
				if !ok || str(t["Kind"]) != "enum" {
					return
				}
				vs, _ := e["Values"].([]any)
				for _, v := range vs {
					vm, _ := v.(map[string]any)
					if sv, ok := vm["Value"].(string); ok && strings.TrimSpace(sv) != sv {
						vm["Value"] = strings.TrimSpace(sv)
						hit = true
						if owner != "" {
							res.Touched[owner] = true
						}
					}
				}
			})
		}
		for _, s := range out {
			for _, o := range s.Objects {
				trim(o["Type"], objKey(s.Package, o))
			}
			trim(s.EntryPointType, "")
		}
		res.WantSame = !hit
	case "hint_object":
		pkg, obj := splitRef(ps.Obj)
		if countMatches(out, pkg, obj) == 0 {
			res.WantSame = true
			return res
		}
		eachObj(func(s *mSchema, _ int, o mObj) {
			if s.Package != pkg || !fold(str(o["Name"]), obj) {
				return
			}
			t := objType(o)
			h, _ := t["Hints"].(map[string]any)
			if h == nil {
				h = map[string]any{}
				t["Hints"] = h
			}
			seen := map[string]bool{}
			for _, kv := range ps.Hints {
				k := kv[0].(string)
				if seen[k] {
					continue // the YAML the harness renders keeps the first of duplicate keys
				}
				seen[k] = true
				h[k] = toGeneric(kv[1])
			}
			res.Touched[objKey(s.Package, o)] = true
		})
	case "schema_set_identifier":
		hit := false
		for _, s := range out {
			if s.Package == ps.Pkg {
				if s.Metadata == nil {
					s.Metadata = map[string]any{}
				}
				if ps.Ident == "" {
					delete(s.Metadata, "Identifier")
				} else {
					s.Metadata["Identifier"] = ps.Ident
				}
				hit = true
			}
		}
		res.WantSame = !hit
	case "schema_set_entry_point":
		hit := false
		for _, s := range out {
			if s.Package == ps.Pkg {
				s.EntryPoint = ps.Ident
				s.EntryPointType = toGeneric(ast.NewRef(s.Package, ps.Ident))
				hit = true
			}
		}
		res.WantSame = !hit
	case "append_comment":
		eachObj(func(s *mSchema, _ int, o mObj) {
			cs, _ := o["Comments"].([]any)
			o["Comments"] = append(append([]any{}, cs...), ps.Comment)
			res.Touched[objKey(s.Package, o)] = true
		})
	case "prefix":
		if ps.Prefix == "" {
			res.WantSame = true
			return res
		}
		pre := func(t any) {
			walkTypes(t, func(t mObj) {
				if r, ok := t["Ref"].(map[string]any); ok && str(t["Kind"]) == "ref" {
					r["ReferredType"] = ps.Prefix + str(r["ReferredType"])
				}
				if r, ok := t["ConstantReference"].(map[string]any); ok {
					r["ReferredType"] = ps.Prefix + str(r["ReferredType"])
				}
				if d, ok := t["Disjunction"].(map[string]any); ok {
					if mp, ok := d["DiscriminatorMapping"].(map[string]any); ok {
						for k, v := range mp {
							mp[k] = ps.Prefix + str(v)
						}
					}
				}
			})
		}
		for _, s := range out {
			for _, o := range s.Objects {
				res.Touched[objKey(s.Package, o)] = true
				o["Name"] = ps.Prefix + str(o["Name"])
				if sr, ok := o["SelfRef"].(map[string]any); ok {
					sr["ReferredType"] = ps.Prefix + str(sr["ReferredType"])
				}
				pre(o["Type"])
			}
			pre(s.EntryPointType)
			if s.EntryPoint != "" {
				s.EntryPoint = ps.Prefix + s.EntryPoint
			}
		}
		// enum member names and hint payloads: the documentation is silent
		res.LooseKeys = []string{"enum-member-names", "hints"}
	default:
		res.Skip = "no model"
	}
	return res
}

func toJSON(v any) string {
	b, _ := json.Marshal(v)
	return string(b)
}

// stripTrails removes every PassesTrail (and, when loose, enum member names and hints).
func stripTrails(v any, loose []string) any {
	looseNames, looseHints := false, false
	for _, l := range loose {
		if l == "enum-member-names" {
			looseNames = true
		}
		if l == "hints" {
			looseHints = true
		}
	}
	var rec func(v any, inEnumValue bool) any
	rec = func(v any, inEnumValue bool) any {
		switch x := v.(type) {
		case map[string]any:
			m := make(map[string]any, len(x))
			_, isEnumValue := x["Value"]
			_, hasType := x["Type"]
			_, hasName := x["Name"]
			ev := isEnumValue && hasType && hasName && len(x) <= 3
			for k, e := range x {
				if k == "PassesTrail" {
					continue
				}
				if looseHints && k == "Hints" {
					continue
				}
				if looseNames && ev && k == "Name" {
					continue
				}
				m[k] = rec(e, ev)
			}
			return m
		case []any:
			l := make([]any, len(x))
			for i, e := range x {
				l[i] = rec(e, false)
			}
			return l
		}
		return v
	}
	return rec(v, false)
}

// firstDiff returns the path of the first difference between two generic values.
func firstDiff(a, b any, path string) string {
	switch x := a.(type) {
	case map[string]any:
		y, ok := b.(map[string]any)
		if !ok {
			return path + ": kind"
		}
		ks := map[string]bool{}
		for k := range x {
			ks[k] = true
		}
		for k := range y {
			ks[k] = true
		}
		var keys []string
		for k := range ks {
			keys = append(keys, k)
		}
		sort.Strings(keys)
		for _, k := range keys {
			xv, xo := x[k]
			yv, yo := y[k]
			if !xo || !yo {
				// absent vs zero value: the IR omits empty optional keys
				if isZeroJSON(xv) && isZeroJSON(yv) {
					continue
				}
				return path + "." + k + ": present on one side only"
			}
			if d := firstDiff(xv, yv, path+"."+k); d != "" {
				return d
			}
		}
		return ""
	case []any:
		y, ok := b.([]any)
		if !ok {
			if isZeroJSON(a) && isZeroJSON(b) {
				return ""
			}
			return path + ": kind"
		}
		if len(x) != len(y) {
			return fmt.Sprintf("%s: length %d vs %d", path, len(x), len(y))
		}
		for i := range x {
			if d := firstDiff(x[i], y[i], fmt.Sprintf("%s[%d]", path, i)); d != "" {
				return d
			}
		}
		return ""
	}
	if isZeroJSON(a) && isZeroJSON(b) {
		return ""
	}
	if toJSON(a) != toJSON(b) {
		return fmt.Sprintf("%s: %s vs %s", path, truncate(toJSON(a), 60), truncate(toJSON(b), 60))
	}
	return ""
}

func isZeroJSON(v any) bool {
	switch x := v.(type) {
	case nil:
		return true
	case []any:
		return len(x) == 0
	case map[string]any:
		return len(x) == 0
	case string:
		return x == ""
	case bool:
		return !x
	}
	return false
}

// normDiffPath drops indices and names from a diff path.
func normDiffPath(d string) string {
	p := strings.SplitN(d, ":", 2)[0]
	return normPath(p)
}
