package zzverif

import (
	"encoding/json"
	"fmt"
	"sort"
	"strings"

	"github.com/grafana/cog/internal/ast"
	"github.com/grafana/cog/internal/ast/compiler"
	cogyaml "github.com/grafana/cog/internal/yaml"
)

// ---------------------------------------------------------------- IR view

// IRView is the list of names a transformation can target.
type IRView struct {
	Pkgs []PkgView
}

type PkgView struct {
	Name    string
	Objects []ObjView
}

type ObjView struct {
	Name   string
	Kind   ast.Kind
	Fields []FieldView
	Const  bool // concrete string scalar
}

type FieldView struct {
	Name string
	Kind ast.Kind
	Bool bool
}

func ViewOf(schemas ast.Schemas) *IRView {
	v := &IRView{}
	for _, s := range schemas {
		if s == nil || s.Objects == nil {
			continue
		}
		pv := PkgView{Name: s.Package}
		s.Objects.Iterate(func(_ string, o ast.Object) {
			ov := ObjView{Name: o.Name, Kind: o.Type.Kind}
			if o.Type.Kind == ast.KindStruct && o.Type.Struct != nil {
				for _, f := range o.Type.Struct.Fields {
					ov.Fields = append(ov.Fields, FieldView{Name: f.Name, Kind: f.Type.Kind,
						Bool: f.Type.Kind == ast.KindScalar && f.Type.Scalar != nil && f.Type.Scalar.ScalarKind == ast.KindBool})
				}
			}
			if o.Type.Kind == ast.KindScalar && o.Type.Scalar != nil && o.Type.Scalar.Value != nil && o.Type.Scalar.ScalarKind == ast.KindString {
				ov.Const = true
			}
			pv.Objects = append(pv.Objects, ov)
		})
		v.Pkgs = append(v.Pkgs, pv)
	}
	return v
}

func (v *IRView) empty() bool {
	for _, p := range v.Pkgs {
		if len(p.Objects) > 0 {
			return false
		}
	}
	return true
}

// caseVariant changes the letter case of a name (matching is documented as case-insensitive).
func caseVariant(r *Rand, s string) string {
	switch r.Intn(3) {
	case 0:
		return strings.ToUpper(s)
	case 1:
		return strings.ToLower(s)
	}
	if s == "" {
		return s
	}
	if s[:1] == strings.ToUpper(s[:1]) {
		return strings.ToLower(s[:1]) + s[1:]
	}
	return strings.ToUpper(s[:1]) + s[1:]
}

type targetMode int

const (
	tExact targetMode = iota
	tCase
	tAbsent
	tOtherPkg
)

func (v *IRView) pickPkg(r *Rand) *PkgView {
	var c []*PkgView
	for i := range v.Pkgs {
		if len(v.Pkgs[i].Objects) > 0 {
			c = append(c, &v.Pkgs[i])
		}
	}
	if len(c) == 0 {
		return nil
	}
	return Pick(r, c)
}

func drawMode(r *Rand) targetMode {
	switch x := r.Intn(10); {
	case x < 6:
		return tExact
	case x < 8:
		return tCase
	case x < 9:
		return tAbsent
	}
	return tOtherPkg
}

// objTarget draws "pkg.Object" in one of the four modes.
func (v *IRView) objTarget(r *Rand, pred func(ObjView) bool) (ref string, pkg string, obj string, mode targetMode) {
	p := v.pickPkg(r)
	if p == nil {
		return "nopkg.Nothing", "nopkg", "Nothing", tAbsent
	}
	var c []ObjView
	for _, o := range p.Objects {
		if pred == nil || pred(o) {
			c = append(c, o)
		}
	}
	if len(c) == 0 {
		c = p.Objects
	}
	o := Pick(r, c)
	mode = drawMode(r)
	pkg, obj = p.Name, o.Name
	switch mode {
	case tCase:
		obj = caseVariant(r, obj)
	case tAbsent:
		obj = obj + "Missing"
	case tOtherPkg:
		if len(v.Pkgs) > 1 {
			for _, q := range v.Pkgs {
				if q.Name != p.Name {
					pkg = q.Name
					break
				}
			}
		} else {
			pkg = pkg + "x"
		}
	}
	return pkg + "." + obj, pkg, obj, mode
}

// fieldTarget draws "pkg.Object.field".
func (v *IRView) fieldTarget(r *Rand) string {
	p := v.pickPkg(r)
	if p == nil {
		return "nopkg.Nothing.none"
	}
	var c []ObjView
	for _, o := range p.Objects {
		if len(o.Fields) > 0 {
			c = append(c, o)
		}
	}
	if len(c) == 0 {
		return p.Name + "." + p.Objects[0].Name + ".none"
	}
	o := Pick(r, c)
	f := Pick(r, o.Fields)
	obj, fld, pkg := o.Name, f.Name, p.Name
	switch drawMode(r) {
	case tCase:
		if r.Bool() {
			obj = caseVariant(r, obj)
		} else {
			fld = caseVariant(r, fld)
		}
	case tAbsent:
		fld = fld + "_missing"
	case tOtherPkg:
		pkg = pkg + "x"
	}
	return pkg + "." + obj + "." + fld
}

// ---------------------------------------------------------------- type specs

// TypeSpec is a small type that renders both to the YAML the loaders read and
// to an ast.Type.
type TypeSpec struct {
	K        string      `json:"k"` // string int64 bool any array map ref struct enum
	Elem     *TypeSpec   `json:"elem,omitempty"`
	Index    *TypeSpec   `json:"index,omitempty"` // maps: index type when it is not a plain string
	RefPkg   string      `json:"ref_pkg,omitempty"`
	RefName  string      `json:"ref_name,omitempty"`
	Fields   []FieldSpec `json:"fields,omitempty"`
	Nullable bool        `json:"nullable,omitempty"`
	Default  any         `json:"default,omitempty"`
	Hints    bool        `json:"hints,omitempty"` // emit an (empty) hints map
	Values   []string    `json:"values,omitempty"`
}

type FieldSpec struct {
	Name     string    `json:"name"`
	T        *TypeSpec `json:"t"`
	Required bool      `json:"required,omitempty"`
	Comments []string  `json:"comments,omitempty"`
}

func genTypeSpec(r *Rand, v *IRView, depth int) *TypeSpec {
	t := &TypeSpec{Hints: r.Chance(2, 3)}
	switch k := r.Intn(9); {
	case k < 3 || depth > 1:
		t.K = Pick(r, []string{"string", "int64", "bool", "any", "float64"})
		if r.Chance(1, 4) && t.K == "string" {
			t.Default = "dflt"
		}
	case k == 3:
		t.K = "array"
		t.Elem = genTypeSpec(r, v, depth+1)
	case k == 4:
		t.K = "map"
		t.Elem = genTypeSpec(r, v, depth+1)
		if sr := r.Side("map-index"); sr.Chance(1, 3) {
			// `{[severity]: T}`: no parser produces it, a hand-written type can
			t.Index = &TypeSpec{K: "enum", Values: []string{"low", "high"}}
		} else if sr.Chance(1, 2) {
			// a map keyed by a named object (`{[Severity]: T}`)
			t.Index = &TypeSpec{K: "ref"}
			_, t.Index.RefPkg, t.Index.RefName, _ = v.objTarget(sr, nil)
		}
	case k == 5 || k == 6:
		t.K = "ref"
		_, t.RefPkg, t.RefName, _ = v.objTarget(r, nil)
	case k == 7:
		t.K = "struct"
		n := 1 + r.Intn(2)
		for i := 0; i < n; i++ {
			t.Fields = append(t.Fields, FieldSpec{Name: fmt.Sprintf("gen%d", i), T: genTypeSpec(r, v, depth+2), Required: r.Bool()})
		}
	default:
		t.K = "enum"
		t.Values = []string{"one", "two"}
	}
	t.Nullable = r.Chance(1, 5)
	return t
}

func (t *TypeSpec) yaml(ind string) string {
	var b strings.Builder
	p := func(f string, a ...any) { fmt.Fprintf(&b, ind+f+"\n", a...) }
	switch t.K {
	case "array":
		p("kind: array")
		p("array:")
		p("  value_type:")
		b.WriteString(t.Elem.yaml(ind + "    "))
	case "map":
		p("kind: map")
		p("map:")
		p("  indextype:")
		if t.Index != nil {
			b.WriteString(t.Index.yaml(ind + "    "))
		} else {
			p("    kind: scalar")
			p("    scalar: {scalar_kind: string}")
		}
		p("  valuetype:")
		b.WriteString(t.Elem.yaml(ind + "    "))
	case "ref":
		p("kind: ref")
		p("ref: {referred_pkg: %s, referred_type: %s}", yq(t.RefPkg), yq(t.RefName))
	case "struct":
		p("kind: struct")
		p("struct:")
		p("  fields:")
		for _, f := range t.Fields {
			b.WriteString(f.yaml(ind + "    "))
		}
	case "constunion":
		p("kind: disjunction")
		p("disjunction:")
		p("  branches:")
		for _, v := range t.Values {
			p("    - kind: scalar")
			p("      scalar: {scalar_kind: string, value: %s}", yq(v))
		}
	case "enum":
		p("kind: enum")
		p("enum:")
		p("  values:")
		for _, v := range t.Values {
			p("    - name: %s", yq(v))
			p("      value: %s", yq(v))
			p("      type: {kind: scalar, scalar: {scalar_kind: string}}")
		}
	default:
		p("kind: scalar")
		p("scalar: {scalar_kind: %s}", t.K)
	}
	if t.Nullable {
		p("nullable: true")
	}
	if t.Default != nil {
		j, _ := json.Marshal(t.Default)
		p("default: %s", string(j))
	}
	if t.Hints {
		p("hints: {}")
	}
	return b.String()
}

func (f FieldSpec) yaml(ind string) string {
	var b strings.Builder
	fmt.Fprintf(&b, "%s- name: %s\n", ind, yq(f.Name))
	if f.Required {
		fmt.Fprintf(&b, "%s  required: true\n", ind)
	}
	if len(f.Comments) > 0 {
		fmt.Fprintf(&b, "%s  comments: [%s]\n", ind, yqList(f.Comments))
	}
	fmt.Fprintf(&b, "%s  type:\n", ind)
	b.WriteString(f.T.yaml(ind + "    "))
	return b.String()
}

func yqList(xs []string) string {
	q := make([]string, len(xs))
	for i, x := range xs {
		q[i] = yq(x)
	}
	return strings.Join(q, ", ")
}

// ---------------------------------------------------------------- pass specs

// PassSpec is one configurable schema transformation, as plain data.
type PassSpec struct {
	Kind       string      `json:"kind"`
	Obj        string      `json:"obj,omitempty"` // pkg.Object
	To         string      `json:"to,omitempty"`
	Objects    []string    `json:"objects,omitempty"`
	Fields     []string    `json:"fields,omitempty"` // pkg.Object.field
	Type       *TypeSpec   `json:"type,omitempty"`
	Comments   []string    `json:"comments,omitempty"`
	NewFields  []FieldSpec `json:"new_fields,omitempty"`
	Defaults   [][2]any    `json:"defaults,omitempty"` // (field ref, value) pairs
	Hints      [][2]any    `json:"hints,omitempty"`
	OmitFields []string    `json:"omit_fields,omitempty"`
	Pkg        string      `json:"pkg,omitempty"`
	Ident      string      `json:"ident,omitempty"`
	Prefix     string      `json:"prefix,omitempty"`  // library-only: PrefixObjectNames
	Comment    string      `json:"comment,omitempty"` // library-only: AppendCommentObjects
}

var configurablePasses = []string{
	"rename_object", "omit", "omit_fields", "add_fields", "add_object", "duplicate_object", "retype_object", "retype_field",
	"fields_set_required", "fields_set_not_required", "fields_set_default", "replace_reference", "constant_to_enum",
	"trim_enum_values", "hint_object", "schema_set_identifier", "schema_set_entry_point", "unspec",
}

var builtinYamlPasses = []string{
	"anonymous_structs_to_named", "disjunction_to_type", "disjunction_of_anonymous_structs_to_explicit",
	"disjunction_infer_mapping", "disjunction_with_constant_to_default", "entrypoint_identification", "dataquery_identification",
}

var nameChangingPasses = []string{"rename_object", "duplicate_object", "unspec", "replace_reference", "prefix"}

func genNewName(r *Rand) string {
	return Pick(r, []string{"Renamed", "NewThing", "Zed", "renamed", "Other_Name", "X1"})
}

// GenPassSpec draws one transformation of the given kind against the view.
func GenPassSpec(r *Rand, v *IRView, kind string) PassSpec {
	ps := PassSpec{Kind: kind}
	isStruct := func(o ObjView) bool { return o.Kind == ast.KindStruct }
	switch kind {
	case "rename_object":
		ps.Obj, _, _, _ = v.objTarget(r, nil)
		ps.To = genNewName(r)
	case "omit":
		n := 1 + r.Intn(2)
		for i := 0; i < n; i++ {
			o, _, _, _ := v.objTarget(r, nil)
			ps.Objects = append(ps.Objects, o)
		}
	case "omit_fields", "fields_set_required", "fields_set_not_required":
		n := 1 + r.Intn(3)
		for i := 0; i < n; i++ {
			ps.Fields = append(ps.Fields, v.fieldTarget(r))
		}
	case "add_fields":
		ps.Obj, _, _, _ = v.objTarget(r, isStruct)
		n := 1 + r.Intn(2)
		for i := 0; i < n; i++ {
			name := Pick(r, []string{"added", "extra", "id", "name", "Added"})
			ps.NewFields = append(ps.NewFields, FieldSpec{Name: name, T: genTypeSpec(r, v, 1), Required: r.Bool(), Comments: maybeComments(r)})
		}
	case "add_object":
		p := v.pickPkg(r)
		pkg := "nopkg"
		if p != nil {
			pkg = p.Name
		}
		if r.Chance(1, 8) {
			pkg += "x"
		}
		ps.Obj = pkg + "." + Pick(r, []string{"AddedObject", "Extra", "Alpha", "added"})
		ps.Type = genTypeSpec(r, v, 0)
		ps.Comments = maybeComments(r)
	case "duplicate_object":
		var pkg string
		ps.Obj, pkg, _, _ = v.objTarget(r, nil)
		dst := pkg
		if len(v.Pkgs) > 1 && r.Chance(1, 3) {
			dst = Pick(r, v.Pkgs).Name
		}
		ps.To = dst + "." + Pick(r, []string{"Copy", "Duplicate", "copyOf"})
		if r.Chance(1, 2) {
			ps.OmitFields = []string{Pick(r, fieldNames), strings.ToUpper(Pick(r, fieldNames))}
		}
	case "retype_object":
		ps.Obj, _, _, _ = v.objTarget(r, nil)
		ps.Type = genTypeSpec(r, v, 0)
		ps.Comments = maybeComments(r)
	case "retype_field":
		ps.Fields = []string{v.fieldTarget(r)}
		ps.Type = genTypeSpec(r, v, 0)
		ps.Comments = maybeComments(r)
	case "fields_set_default":
		n := 1 + r.Intn(3)
		for i := 0; i < n; i++ {
			ps.Defaults = append(ps.Defaults, [2]any{v.fieldTarget(r), Pick(r, []any{"dv", 3, true, 1.5, "dv", 3,
				// values that reach the jennies as Go maps and slices
				map[string]any{"zeta": "a", "alpha": "b", "mid": 1, "k4": true}, []any{"x", "y"}})})
		}
		if r.Chance(1, 3) && len(ps.Defaults) > 0 {
			// two keys that fold onto the same field
			k := ps.Defaults[0][0].(string)
			parts := strings.Split(k, ".")
			if len(parts) == 3 {
				parts[2] = caseVariantFixed(parts[2])
				if alt := strings.Join(parts, "."); alt != k {
					ps.Defaults = append(ps.Defaults, [2]any{alt, "folded"})
				}
			}
		}
	case "replace_reference":
		ps.Obj, _, _, _ = v.objTarget(r, nil)
		ps.To, _, _, _ = v.objTarget(r, nil)
	case "constant_to_enum":
		n := 1 + r.Intn(2)
		for i := 0; i < n; i++ {
			o, _, _, _ := v.objTarget(r, func(o ObjView) bool { return o.Const })
			ps.Objects = append(ps.Objects, o)
		}
	case "hint_object":
		ps.Obj, _, _, _ = v.objTarget(r, nil)
		n := 1 + r.Intn(3)
		for i := 0; i < n; i++ {
			ps.Hints = append(ps.Hints, [2]any{Pick(r, []string{"skip_variant_plugin_registration", "implements_variant", "custom_hint", "another"}), Pick(r, []any{true, "dataquery", "x"})})
		}
	case "schema_set_identifier":
		p := v.pickPkg(r)
		ps.Pkg = "nopkg"
		if p != nil {
			ps.Pkg = p.Name
		}
		if r.Chance(1, 6) {
			ps.Pkg = caseVariant(r, ps.Pkg) + "x"
		}
		ps.Ident = Pick(r, []string{"ident", "Some-Id", ""})
	case "schema_set_entry_point":
		_, pkg, obj, _ := v.objTarget(r, nil)
		ps.Pkg, ps.Ident = pkg, obj
	case "prefix":
		ps.Prefix = Pick(r, []string{"Pre", "x", "My_"})
	case "append_comment":
		ps.Comment = Pick(r, []string{"appended comment", ""})
	}
	return ps
}

func caseVariantFixed(s string) string {
	if s == strings.ToUpper(s) {
		return strings.ToLower(s)
	}
	return strings.ToUpper(s)
}

func maybeComments(r *Rand) []string {
	if r.Chance(1, 2) {
		return nil
	}
	return []string{"a comment", "second line"}[:1+r.Intn(2)]
}

// YAML renders the pass as one entry of a `passes:` list ("" for library-only passes).
func (ps PassSpec) YAML() string {
	var b strings.Builder
	p := func(f string, a ...any) { fmt.Fprintf(&b, f+"\n", a...) }
	switch ps.Kind {
	case "rename_object":
		p("  - rename_object:\n      from: %s\n      to: %s", yq(ps.Obj), yq(ps.To))
	case "omit":
		p("  - omit:\n      objects: [%s]", yqList(ps.Objects))
	case "omit_fields", "fields_set_required", "fields_set_not_required":
		p("  - %s:\n      fields: [%s]", ps.Kind, yqList(ps.Fields))
	case "add_fields":
		p("  - add_fields:\n      to: %s\n      fields:", yq(ps.Obj))
		for _, f := range ps.NewFields {
			b.WriteString(f.yaml("        "))
		}
	case "add_object", "retype_object":
		p("  - %s:\n      object: %s", ps.Kind, yq(ps.Obj))
		if len(ps.Comments) > 0 {
			p("      comments: [%s]", yqList(ps.Comments))
		}
		p("      as:")
		b.WriteString(ps.Type.yaml("        "))
	case "retype_field":
		p("  - retype_field:\n      field: %s", yq(ps.Fields[0]))
		if len(ps.Comments) > 0 {
			p("      comments: [%s]", yqList(ps.Comments))
		}
		p("      as:")
		b.WriteString(ps.Type.yaml("        "))
	case "duplicate_object":
		p("  - duplicate_object:\n      object: %s\n      as: %s", yq(ps.Obj), yq(ps.To))
		if len(ps.OmitFields) > 0 {
			p("      omit_fields: [%s]", yqList(ps.OmitFields))
		}
	case "fields_set_default":
		p("  - fields_set_default:\n      defaults:")
		seenKey := map[string]bool{}
		for _, kv := range ps.Defaults {
			if seenKey[kv[0].(string)] {
				continue
			}
			seenKey[kv[0].(string)] = true
			j, _ := json.Marshal(kv[1])
			p("        %s: %s", yq(kv[0].(string)), string(j))
		}
	case "replace_reference":
		p("  - replace_reference:\n      from: %s\n      to: %s", yq(ps.Obj), yq(ps.To))
	case "constant_to_enum":
		p("  - constant_to_enum:\n      objects: [%s]", yqList(ps.Objects))
	case "hint_object":
		p("  - hint_object:\n      object: %s\n      hints:", yq(ps.Obj))
		seen := map[string]bool{}
		for _, kv := range ps.Hints {
			k := kv[0].(string)
			if seen[k] {
				continue
			}
			seen[k] = true
			j, _ := json.Marshal(kv[1])
			p("        %s: %s", k, string(j))
		}
	case "schema_set_identifier":
		p("  - schema_set_identifier:\n      package: %s\n      identifier: %s", yq(ps.Pkg), yq(ps.Ident))
	case "schema_set_entry_point":
		p("  - schema_set_entry_point:\n      package: %s\n      entry_point: %s", yq(ps.Pkg), yq(ps.Ident))
	case "prefix", "append_comment":
		return ""
	default:
		// parameterless passes: unspec, trim_enum_values and the built-in ones
		p("  - %s: {}", ps.Kind)
	}
	return b.String()
}

// PassesFileYAML renders a whole transformation file.
func PassesFileYAML(specs []PassSpec) string {
	var b strings.Builder
	b.WriteString("passes:\n")
	n := 0
	for _, s := range specs {
		y := s.YAML()
		if y != "" {
			b.WriteString(y)
			n++
		}
	}
	if n == 0 {
		return "passes: []\n"
	}
	return b.String()
}

// Build turns the spec into a compiler.Pass: through the real YAML loader for
// configurable passes, directly for the two library-only ones.
func (ps PassSpec) Build() (compiler.Pass, error) {
	switch ps.Kind {
	case "prefix":
		return &compiler.PrefixObjectNames{Prefix: ps.Prefix}, nil
	case "append_comment":
		return &compiler.AppendCommentObjects{Comment: ps.Comment}, nil
	}
	passes, err := cogyaml.NewCompilerLoader().Load(strings.NewReader(PassesFileYAML([]PassSpec{ps})))
	if err != nil {
		return nil, err
	}
	if len(passes) != 1 {
		return nil, fmt.Errorf("loader returned %d passes for one entry", len(passes))
	}
	return passes[0], nil
}

// dedupe-stable helper
func uniqueStrings(xs []string) []string {
	seen := map[string]bool{}
	var out []string
	for _, x := range xs {
		if !seen[x] {
			seen[x] = true
			out = append(out, x)
		}
	}
	sort.Strings(out)
	return out
}

// typeSpecToAST builds the ast.Type the YAML rendering of t decodes to
// (written by hand: it does not go through the loader).
func typeSpecToAST(t *TypeSpec) (ast.Type, error) {
	if t == nil {
		return ast.Type{}, fmt.Errorf("nil type spec")
	}
	out := ast.Type{Nullable: t.Nullable, Default: t.Default}
	if t.Hints {
		out.Hints = ast.JenniesHints{}
	}
	strScalar := ast.Type{Kind: ast.KindScalar, Scalar: &ast.ScalarType{ScalarKind: ast.KindString}}
	switch t.K {
	case "array":
		e, err := typeSpecToAST(t.Elem)
		if err != nil {
			return out, err
		}
		out.Kind, out.Array = ast.KindArray, &ast.ArrayType{ValueType: e}
	case "map":
		e, err := typeSpecToAST(t.Elem)
		if err != nil {
			return out, err
		}
		idx := strScalar
		if t.Index != nil {
			if idx, err = typeSpecToAST(t.Index); err != nil {
				return out, err
			}
		}
		out.Kind, out.Map = ast.KindMap, &ast.MapType{IndexType: idx, ValueType: e}
	case "ref":
		out.Kind, out.Ref = ast.KindRef, &ast.RefType{ReferredPkg: t.RefPkg, ReferredType: t.RefName}
	case "struct":
		st := &ast.StructType{}
		for _, f := range t.Fields {
			af, err := fieldSpecToAST(f)
			if err != nil {
				return out, err
			}
			st.Fields = append(st.Fields, af)
		}
		out.Kind, out.Struct = ast.KindStruct, st
	case "constunion":
		dj := &ast.DisjunctionType{}
		for _, v := range t.Values {
			dj.Branches = append(dj.Branches, ast.Type{Kind: ast.KindScalar, Scalar: &ast.ScalarType{ScalarKind: ast.KindString, Value: v}})
		}
		out.Kind, out.Disjunction = ast.KindDisjunction, dj
	case "enum":
		en := &ast.EnumType{}
		for _, v := range t.Values {
			en.Values = append(en.Values, ast.EnumValue{Type: strScalar, Name: v, Value: v})
		}
		out.Kind, out.Enum = ast.KindEnum, en
	default:
		out.Kind, out.Scalar = ast.KindScalar, &ast.ScalarType{ScalarKind: ast.ScalarKind(t.K)}
	}
	return out, nil
}

func fieldSpecToAST(f FieldSpec) (ast.StructField, error) {
	t, err := typeSpecToAST(f.T)
	if err != nil {
		return ast.StructField{}, err
	}
	return ast.StructField{Name: f.Name, Type: t, Required: f.Required, Comments: f.Comments}, nil
}
