package zzverif

import (
	"regexp"
	"fmt"
	"strings"
)

var allLanguages = []string{"go", "java", "jsonschema", "openapi", "php", "python", "typescript"}

func genLangFlags(r *Rand, lang string) map[string]string {
	f := map[string]string{}
	b := func(k string, num, den int) {
		if r.Chance(num, den) {
			f[k] = "true"
		}
	}
	switch lang {
	case "go":
		if r.Chance(3, 4) {
			f["package_root"] = yq("github.com/example/gen")
		}
		b("generate_json_marshaller", 1, 2)
		b("generate_strict_unmarshaller", 1, 2)
		b("generate_equal", 1, 2)
		b("generate_validate", 1, 2)
		b("skip_runtime", 1, 4)
		b("any_as_interface", 1, 4)
		// post formatting (x/tools/imports) is by far the slowest step: mostly skipped
		if r.Chance(5, 6) {
			f["skip_post_formatting"] = "true"
		}
	case "java":
		if r.Chance(3, 4) {
			f["package_path"] = yq("com.example.gen")
		}
		b("generate_json_marshaller", 1, 2)
		b("skip_runtime", 1, 4)
	case "php":
		if r.Chance(3, 4) {
			f["namespace_root"] = yq(`Example\Gen`)
		}
		b("generate_json_marshaller", 1, 2)
	case "python":
		if r.Chance(1, 2) {
			f["path_prefix"] = yq("example_sdk")
		}
		b("generate_json_marshaller", 1, 2)
		b("skip_runtime", 1, 4)
	case "typescript":
		if r.Chance(1, 3) {
			f["path_prefix"] = yq("src")
		}
		b("skip_runtime", 1, 4)
		b("skip_index", 1, 4)
		b("enums_as_union_types", 1, 3)
	case "jsonschema", "openapi":
		b("compact", 1, 2)
	}
	return f
}

// GenLanguages draws a language subset (at least one).
func GenLanguages(r *Rand, min, max int) []LangSpec {
	n := min + r.Intn(max-min+1)
	names := Shuffled(r, allLanguages)[:n]
	out := make([]LangSpec, 0, n)
	for _, l := range names {
		out = append(out, LangSpec{Name: l, Flags: genLangFlags(r, l)})
	}
	return out
}

// genPkgInput renders a generated package in one of the three formats.
func genPkgInput(r *Rand, w *Workload, pkg string, format string, opts GenOpts) (InputSpec, *WPackage) {
	if format == "cue" {
		opts.NoCycles = true
	}
	p := GenPackage(r.Fork("pkg:"+pkg), pkg, opts)
	switch format {
	case "jsonschema":
		path := "in/gen_" + pkg + "/schema.json"
		w.Files[path] = p.RenderJSONSchema()
		return InputSpec{Kind: "jsonschema", Path: path, Package: pkg}, p
	case "openapi":
		path := "in/gen_" + pkg + "/openapi.json"
		w.Files[path] = p.RenderOpenAPI()
		return InputSpec{Kind: "openapi", Path: path, Package: pkg, NoValidate: r.Bool()}, p
	default:
		dir := "in/gen_" + pkg + "/" + pkg
		doc := p.RenderCUE(pkg)
		in := InputSpec{Kind: "cue", Path: dir, Package: pkg}
		if sr := r.Side("cue-envelope:" + pkg); sr.Chance(1, 4) {
			// dataquery style: regular fields instead of definitions, used as types by
			// their siblings, wrapped in a forced envelope
			doc = cueDefRef.ReplaceAllString(doc, "$1")
			in.ForcedEnvelope = Pick(sr, []string{"Envelope", "DataQuery"})
		} else if sr.Chance(1, 6) {
			// an envelope forced onto a file that holds definitions only
			in.ForcedEnvelope = Pick(sr, []string{"Envelope", "DataQuery"})
		}
		w.Files[dir+"/schema.cue"] = doc
		return in, p
	}
}

// AddFinalPasses makes the workload a host program's: one or two built-in passes
// appended to every language's chain, one pass object for all languages.
func AddFinalPasses(r *Rand, w *Workload) {
	n := 1 + r.Intn(2)
	w.FinalPasses = Shuffled(r, FinalPassNames)[:n]
	if r.Chance(1, 3) {
		// the one pass of the list that keeps per-run state in its own fields
		w.FinalPasses[0] = "InlineObjectsWithTypes"
		if n == 2 && w.FinalPasses[1] == "InlineObjectsWithTypes" {
			w.FinalPasses = w.FinalPasses[:1]
		}
	}
	for _, fp := range w.FinalPasses {
		if fp == "PrefixObjectNames" && r.Chance(2, 3) {
			// what a host that prefixes names typically configures next to it: unions turned
			// into types by the common transformations, for every language alike
			w.Files["cfg/final_setup_passes.yaml"] = "passes:\n  - disjunction_infer_mapping: {}\n  - disjunction_to_type: {}\n"
			w.CommonPass = append(w.CommonPass, "cfg/final_setup_passes.yaml")
		}
	}
	w.Name += " +final:" + strings.Join(w.FinalPasses, ",")
}

// AddCaseTwin adds, for one JSON Schema / OpenAPI input, a second input reading
// the same document under a package name that differs in letter case only: the
// same object names then exist in two packages that a case-insensitive match
// would confuse.
func AddCaseTwin(r *Rand, w *Workload) bool {
	var cands []int
	for i, in := range w.Inputs {
		if (in.Kind == "jsonschema" || in.Kind == "openapi") && in.Package != "" && in.URL == "" && len(in.AllowedObjects) == 0 {
			cands = append(cands, i)
		}
	}
	if len(cands) == 0 {
		return false
	}
	in := w.Inputs[Pick(r, cands)]
	twin := in
	twin.Package = strings.ToUpper(in.Package[:1]) + in.Package[1:]
	if twin.Package == in.Package {
		twin.Package = strings.ToLower(in.Package)
	}
	for _, o := range w.Inputs {
		if o.Package == twin.Package {
			return false
		}
	}
	twin.Transformations = nil
	w.Inputs = append(w.Inputs, twin)
	w.Name += " +case-twin:" + twin.Package
	return true
}

var cueDefRef = regexp.MustCompile(`#([A-Za-z_][A-Za-z0-9_]*)`)

var genPkgNames = []string{"pkga", "pkgb", "pkgc", "dashboard", "common", "panelz"}

// GenWorkload draws a pipeline: 1-3 inputs (corpus or generated, distinct
// packages), a language subset, output toggles, parameters.
func GenWorkload(r *Rand, corpus []CorpusInput, maxLangs int, opts GenOpts) *Workload {
	w := &Workload{Files: map[string]string{}}
	nin := 1 + r.Intn(3)
	usedPkg := map[string]bool{}
	var names []string
	for i := 0; i < nin; i++ {
		if len(corpus) > 0 && r.Chance(1, 2) {
			ci := Pick(r, corpus)
			pkg := ci.Spec.Package
			if pkg == "" {
				pkg = ci.Name[strings.LastIndex(ci.Name, "/")+1:]
			}
			if usedPkg[pkg] {
				continue
			}
			usedPkg[pkg] = true
			for k, v := range ci.Files {
				w.Files[k] = v
			}
			w.Inputs = append(w.Inputs, ci.Spec)
			names = append(names, ci.Name)
			continue
		}
		pkg := Pick(r, genPkgNames)
		if usedPkg[pkg] {
			continue
		}
		usedPkg[pkg] = true
		format := Pick(r, []string{"jsonschema", "jsonschema", "openapi", "openapi", "cue"})
		in, _ := genPkgInput(r, w, pkg, format, opts)
		if r.Chance(1, 4) {
			in.Metadata = map[string]string{"kind": "composable", "variant": Pick(r, []string{"dataquery", "panelcfg"}), "identifier": pkg + "-id"}
		} else if r.Chance(1, 6) {
			in.Metadata = map[string]string{"kind": "core", "identifier": strings.ToUpper(pkg[:1]) + pkg[1:]}
		}
		w.Inputs = append(w.Inputs, in)
		names = append(names, "gen:"+format+":"+pkg)
	}
	if len(w.Inputs) == 0 {
		in, _ := genPkgInput(r, w, "pkga", "jsonschema", opts)
		w.Inputs = append(w.Inputs, in)
		names = append(names, "gen:jsonschema:pkga")
	}
	w.Languages = GenLanguages(r, 1, maxLangs)
	w.Types = r.Chance(9, 10)
	w.Builders = r.Chance(1, 2)
	w.Converters = w.Builders && r.Chance(1, 2)
	w.APIRef = r.Chance(1, 3)
	w.Debug = r.Chance(1, 3)
	if r.Chance(1, 3) {
		w.Params = map[string]string{"alpha": "x", "beta": "%alpha%/y"}
		w.TplData = map[string]string{"Version": "%beta%", "Other": "%alpha%"}
		if sr := r.Side("cli-params"); sr.Chance(1, 3) {
			// `--parameters` overriding a parameter of the file and referring to others
			w.CLIParams = map[string]string{"alpha": "cli", "gamma": "%alpha%-%beta%", "beta": "%alpha%/z"}
			w.TplData["Third"] = "%gamma%"
		}
	}
	w.Name = strings.Join(names, "+") + " -> " + strings.Join(w.LangNames(), ",") + fmt.Sprintf(" t=%v b=%v c=%v a=%v", w.Types, w.Builders, w.Converters, w.APIRef)
	return w
}

// GenComposeWorkload draws the scenario builder composition exists for: a core
// package with a Panel whose `options` and `fieldConfig.defaults.custom` slots
// are `any`, 2-3 composable panelcfg packages providing Options/FieldConfig, and
// a compose veneer. It is what puts >= 2 entries into ComposeBuilders' map.
func GenComposeWorkload(r *Rand) *Workload {
	w := &Workload{Files: map[string]string{}, Types: true, Builders: true}
	str := func() *WType { return &WType{K: "string"} }
	core := &WPackage{Name: "dashboard", Objects: []WObject{
		{Name: "Panel", T: &WType{K: "struct", Fields: []WField{
			{Name: "type", T: str(), Required: true},
			{Name: "title", T: str()},
			{Name: "options", T: &WType{K: "any"}},
			{Name: "fieldConfig", T: &WType{K: "ref", Ref: "FieldConfigSource"}},
		}}},
		{Name: "FieldConfigSource", T: &WType{K: "struct", Fields: []WField{{Name: "defaults", T: &WType{K: "ref", Ref: "FieldConfig"}}}}},
		{Name: "FieldConfig", T: &WType{K: "struct", Fields: []WField{{Name: "unit", T: str()}, {Name: "custom", T: &WType{K: "any"}}}}},
	}}
	path := "in/gen_dashboard/schema.json"
	w.Files[path] = core.RenderJSONSchema()
	w.Inputs = append(w.Inputs, InputSpec{Kind: "jsonschema", Path: path, Package: "dashboard"})
	panels := Shuffled(r, []string{"timeseries", "barchart", "table", "stat"})[:2+r.Intn(2)]
	scalarField := func(n string) WField {
		g := &worldGen{r: r, opts: GenOpts{Plain: true}}
		return WField{Name: n, T: g.scalar(), Required: r.Bool()}
	}
	for _, p := range panels {
		pk := &WPackage{Name: p, Objects: []WObject{
			{Name: "Options", T: &WType{K: "struct", Fields: []WField{scalarField("legend"), scalarField("tooltip"), scalarField(p + "Mode")}}},
			{Name: "FieldConfig", T: &WType{K: "struct", Fields: []WField{scalarField("lineWidth"), scalarField("fillOpacity")}}},
		}}
		path := "in/gen_" + p + "/schema.json"
		w.Files[path] = pk.RenderJSONSchema()
		w.Inputs = append(w.Inputs, InputSpec{Kind: "jsonschema", Path: path, Package: p,
			Metadata: map[string]string{"kind": "composable", "variant": "panelcfg", "identifier": p}})
	}
	w.Inputs = Shuffled(r, w.Inputs)
	var b strings.Builder
	b.WriteString("language: all\npackage: dashboard\nbuilders:\n  - compose:\n      by_variant: panelcfg\n      source_builder_name: dashboard.Panel\n      plugin_discriminator_field: type\n")
	b.WriteString("      composition_map:\n        Options: options\n        FieldConfig: fieldConfig.defaults.custom\n")
	if r.Bool() {
		b.WriteString("      exclude_options: [title]\n")
	}
	if r.Bool() {
		b.WriteString("      composed_builder_name: Panel\n")
	}
	if r.Bool() {
		b.WriteString("      preserve_original_builders: true\n")
	}
	w.Files["cfg/veneers/compose.yaml"] = b.String()
	w.VeneerDirs = []string{"cfg/veneers"}
	w.Languages = GenLanguages(r, 1, 3)
	w.Converters = r.Bool()
	w.APIRef = r.Chance(1, 3)
	if sr := r.Side("plugin-factories"); sr.Chance(1, 2) {
		// a factory on each plugin's Options builder: compose merges them into the composed
		// builders, which live in the plugin's package but build an object of the core package
		for _, p := range panels {
			w.Files["cfg/veneers/a_factory_"+p+".yaml"] = fmt.Sprintf("language: all\npackage: %[1]s\nbuilders:\n  - add_factory:\n      by_object: Options\n      factory:\n        name: %[1]sPreset\n        arguments:\n          - name: preset\n            type: {kind: scalar, scalar: {scalar_kind: string}}\n        options:\n          - name: legend\n            parameters:\n              - argument:\n                  name: preset\n                  type: {kind: scalar, scalar: {scalar_kind: string}}\n", p)
		}
		w.APIRef = sr.Chance(2, 3)
		if sr.Bool() {
			have := false
			for _, l := range w.Languages {
				have = have || l.Name == "python"
			}
			if !have {
				w.Languages = append(w.Languages, LangSpec{Name: "python", Flags: map[string]string{}})
			}
		}
	}
	w.Name = "compose:" + strings.Join(panels, "+") + " -> " + strings.Join(w.LangNames(), ",")
	return w
}

// GenListOfUnionsWorkload: a struct with two lists of discriminated unions whose
// options are turned into append-one-branch options (array_to_append +
// disjunction_as_options), with converters: the shape that puts two entries
// into the converter generator's map of list-of-disjunction options.
func GenListOfUnionsWorkload(r *Rand) *Workload {
	w := &Workload{Files: map[string]string{}, Types: true, Builders: true, Converters: true}
	variant := func(name, tag string) WObject {
		return WObject{Name: name, T: &WType{K: "struct", Fields: []WField{
			{Name: "type", T: &WType{K: "const", Const: tag}, Required: true},
			{Name: "payload", T: &WType{K: "string"}},
		}}}
	}
	union := func() *WType {
		return &WType{K: "union", Branches: []*WType{{K: "ref", Ref: "VariantA"}, {K: "ref", Ref: "VariantB"}}}
	}
	pkg := &WPackage{Name: "lists", Objects: []WObject{
		variant("VariantA", "va"), variant("VariantB", "vb"),
		{Name: "Holder", T: &WType{K: "struct", Fields: []WField{
			{Name: "many", T: &WType{K: "array", Elem: union()}},
			{Name: "others", T: &WType{K: "array", Elem: union()}},
			{Name: "zeds", T: &WType{K: "array", Elem: union()}},
		}}},
	}}
	format := Pick(r, []string{"jsonschema", "openapi"})
	if format == "openapi" {
		w.Files["in/lists/openapi.json"] = pkg.RenderOpenAPI()
		w.Inputs = []InputSpec{{Kind: "openapi", Path: "in/lists/openapi.json", Package: "lists"}}
	} else {
		w.Files["in/lists/schema.json"] = pkg.RenderJSONSchema()
		w.Inputs = []InputSpec{{Kind: "jsonschema", Path: "in/lists/schema.json", Package: "lists"}}
	}
	var b strings.Builder
	b.WriteString("language: all\npackage: lists\noptions:\n")
	for _, f := range Shuffled(r, []string{"many", "others", "zeds"}) {
		fmt.Fprintf(&b, "  - array_to_append:\n      by_name: Holder.%s\n", f)
	}
	for _, f := range Shuffled(r, []string{"many", "others", "zeds"}) {
		fmt.Fprintf(&b, "  - disjunction_as_options:\n      by_name: Holder.%s\n      argument_index: 0\n", tools_singular(f))
	}
	w.Files["cfg/veneers/lists.yaml"] = b.String()
	w.VeneerDirs = []string{"cfg/veneers"}
	w.Languages = GenLanguages(r, 1, 3)
	w.Name = "list-of-unions:" + format + " -> " + strings.Join(w.LangNames(), ",")
	return w
}

// array_to_append keeps the option's name; only its argument is singularised.
func tools_singular(s string) string { return s }

// GenCueImportsWorkload: a CUE entry point that imports two libraries whose import
// paths are a prefix of one another, embeds definitions of both (so that nodes
// located in the libraries' files are walked) and refers to them.
func GenCueImportsWorkload(r *Rand) *Workload {
	w := &Workload{Files: map[string]string{}, Types: true, Builders: r.Bool()}
	w.Files["in/libs/common/common.cue"] = "package common\n\n#Item: {\n\tname: string\n}\n\n#Shared: {\n\titems: [...#Item]\n\ttags?: [...string]\n\tkind: \"shared\"\n}\n"
	w.Files["in/libs/commonext/commonext.cue"] = "package commonext\n\n#Entry: {\n\tid: int64\n}\n\n#Extra: {\n\tentries: [...#Entry]\n\tfirst?: #Entry\n}\n"
	alias := Pick(r, []string{"ext ", ""})
	sel := "ext"
	if alias == "" {
		sel = "commonext"
	}
	var b strings.Builder
	b.WriteString("package main\n\nimport (\n\t\"example.com/libs/common\"\n\t" + alias + "\"example.com/libs/commonext\"\n)\n\n")
	defs := []string{
		"#Thing: {\n\tcommon.#Shared\n\textra: string\n}\n\n",
		"#Other: {\n\t" + sel + ".#Extra\n\tmore?: bool\n}\n\n",
		"#Uses: {\n\ts: common.#Shared\n\te?: " + sel + ".#Extra\n\titems: [...common.#Item]\n\tentries: [..." + sel + ".#Entry]\n}\n\n",
	}
	for _, d := range Shuffled(r, defs) {
		b.WriteString(d)
	}
	w.Files["in/main/main.cue"] = b.String()
	imports := Shuffled(r, []string{"in/libs/common:example.com/libs/common", "in/libs/commonext:example.com/libs/commonext"})
	w.Inputs = Shuffled(r, []InputSpec{
		{Kind: "cue", Path: "in/main", Package: "main", CueImports: imports},
		{Kind: "cue", Path: "in/libs/common", Package: "common"},
		{Kind: "cue", Path: "in/libs/commonext", Package: "commonext"},
	})
	w.Languages = GenLanguages(r, 1, 3)
	w.Name = "cue-imports -> " + strings.Join(w.LangNames(), ",")
	return w
}

// GenSharedOptionWorkload: an option added to a builder by a veneer written for
// all languages, and a rule written for one language only that reshapes that
// option. The rewriter (and the rules it holds) is built once and serves every
// language of the run.
func GenSharedOptionWorkload(r *Rand) *Workload {
	w := &Workload{Files: map[string]string{}, Types: true, Builders: true}
	p := &WPackage{Name: "opts", Objects: []WObject{
		{Name: "Thing", T: &WType{K: "struct", Fields: []WField{
			{Name: "title", T: &WType{K: "string"}, Required: true},
			{Name: "labels", T: &WType{K: "array", Elem: &WType{K: "string"}}},
			{Name: "flags", T: &WType{K: "map", Elem: &WType{K: "bool"}}},
		}}},
	}}
	w.Files["in/opts/schema.json"] = p.RenderJSONSchema()
	w.Inputs = []InputSpec{{Kind: "jsonschema", Path: "in/opts/schema.json", Package: "opts"}}
	arr := "{kind: array, array: {value_type: {kind: scalar, scalar: {scalar_kind: string}}}}"
	mp := "{kind: map, map: {index_type: {kind: scalar, scalar: {scalar_kind: string}}, value_type: {kind: scalar, scalar: {scalar_kind: bool}}}}"
	shape := Pick(r, []string{"array", "map"})
	field, typ, rule := "labels", arr, "array_to_append"
	if shape == "map" {
		field, typ, rule = "flags", mp, "map_to_index"
	}
	w.Files["cfg/veneers/all.yaml"] = fmt.Sprintf("language: all\npackage: opts\nbuilders:\n  - add_option:\n      by_object: Thing\n      option:\n        name: extra\n        comments: ['an added option']\n        arguments:\n          - name: %[1]s\n            type: %[2]s\n        assignments:\n          - path: %[1]s\n            method: direct\n            value:\n              argument:\n                name: %[1]s\n                type: %[2]s\n", field, typ)
	only := Pick(r, []string{"go", "typescript", "python"})
	w.Files["cfg/veneers/one.yaml"] = fmt.Sprintf("language: %s\npackage: opts\noptions:\n  - %s:\n      by_name: Thing.extra\n", only, rule)
	w.VeneerDirs = []string{"cfg/veneers"}
	langs := Shuffled(r, []string{"go", "typescript", "python", "java", "php"})[:2+r.Intn(2)]
	have := false
	for _, l := range langs {
		have = have || l == only
	}
	if !have {
		langs = append(langs, only)
	}
	for _, l := range langs {
		w.Languages = append(w.Languages, LangSpec{Name: l, Flags: map[string]string{}})
	}
	w.Name = "shared-option:" + shape + ":" + only + " -> " + strings.Join(w.LangNames(), ",")
	return w
}

// GenShapesWorkload: one struct with a field of every shape the option rules care
// about (scalars, a boolean with a default, arrays and maps of scalars, booleans and
// structs, a reference, a union), so that chains of rules on one option have something to act on.
func GenShapesWorkload(r *Rand) *Workload {
	w := &Workload{Files: map[string]string{}, Types: true, Builders: true}
	str := func() *WType { return &WType{K: "string"} }
	boolean := func() *WType { return &WType{K: "bool"} }
	p := &WPackage{Name: "shapes", Objects: []WObject{
		{Name: "Inner", T: &WType{K: "struct", Fields: []WField{{Name: "x", T: &WType{K: "int"}, Required: true}, {Name: "on", T: boolean()}, {Name: "label", T: str()}}}},
		{Name: "Other", T: &WType{K: "struct", Fields: []WField{{Name: "y", T: str(), Required: true}}}},
		{Name: "Thing", T: &WType{K: "struct", Fields: []WField{
			{Name: "title", T: str(), Required: true},
			{Name: "enabled", T: &WType{K: "bool", Default: true}},
			{Name: "labels", T: &WType{K: "array", Elem: str()}},
			{Name: "switches", T: &WType{K: "array", Elem: boolean()}},
			{Name: "flags", T: &WType{K: "map", Elem: boolean()}},
			{Name: "names", T: &WType{K: "map", Elem: str()}},
			{Name: "inners", T: &WType{K: "array", Elem: &WType{K: "ref", Ref: "Inner"}}},
			{Name: "byName", T: &WType{K: "map", Elem: &WType{K: "ref", Ref: "Inner"}}},
			{Name: "inner", T: &WType{K: "ref", Ref: "Inner"}},
			{Name: "either", T: &WType{K: "union", Branches: []*WType{{K: "ref", Ref: "Inner"}, {K: "ref", Ref: "Other"}}}},
			{Name: "eitherByName", T: &WType{K: "map", Elem: &WType{K: "union", Branches: []*WType{{K: "ref", Ref: "Inner"}, {K: "ref", Ref: "Other"}}}}},
			{Name: "eithers", T: &WType{K: "array", Elem: &WType{K: "union", Branches: []*WType{{K: "ref", Ref: "Inner"}, {K: "ref", Ref: "Other"}}}}},
			{Name: "scalarOrNull", T: &WType{K: "union", Branches: []*WType{str(), {K: "null"}}}},
		}}},
	}}
	if r.Bool() {
		w.Files["in/shapes/schema.json"] = p.RenderJSONSchema()
		w.Inputs = []InputSpec{{Kind: "jsonschema", Path: "in/shapes/schema.json", Package: "shapes"}}
	} else {
		w.Files["in/shapes/openapi.json"] = p.RenderOpenAPI()
		w.Inputs = []InputSpec{{Kind: "openapi", Path: "in/shapes/openapi.json", Package: "shapes"}}
	}
	w.Languages = GenLanguages(r, 1, 2)
	w.Name = "shapes -> " + strings.Join(w.LangNames(), ",")
	return w
}

// GenAliasedMappingWorkload: an OpenAPI union of references whose discriminator mapping gives
// several values to one type (aliases) - whatever is derived from the mapping by ranging over it
// has ties that only the order of the map can break.
func GenAliasedMappingWorkload(r *Rand) *Workload {
	w := &Workload{Files: map[string]string{}, Types: true, Builders: r.Bool(), Converters: false}
	variant := func(name, tag string) WObject {
		return WObject{Name: name, T: &WType{K: "struct", Fields: []WField{
			{Name: "type", T: &WType{K: "string", Const: tag}, Required: true},
			{Name: "payload", T: &WType{K: "string"}},
		}}}
	}
	names := Shuffled(r, []string{"Alpha", "Beta", "Gamma"})
	u := &WType{K: "union", Disc: "type"}
	p := &WPackage{Name: "aliased"}
	for i, n := range names {
		p.Objects = append(p.Objects, variant(n, fmt.Sprintf("v%d", i)))
		u.Branches = append(u.Branches, &WType{K: "ref", Ref: n})
		u.DiscMap = append(u.DiscMap, [2]string{fmt.Sprintf("v%d", i), n})
	}
	for _, a := range Shuffled(r, []string{"zz_alias", "aa_alias", "mm_alias", "Alias"})[:2+r.Intn(3)] {
		u.DiscMap = append(u.DiscMap, [2]string{a, names[r.Intn(2)]})
	}
	p.Objects = append(p.Objects, WObject{Name: "Holder", T: &WType{K: "struct", Fields: []WField{
		{Name: "one", T: u, Required: true},
		{Name: "many", T: &WType{K: "array", Elem: u}},
	}}})
	w.Files["in/aliased/openapi.json"] = p.RenderOpenAPI()
	w.Inputs = []InputSpec{{Kind: "openapi", Path: "in/aliased/openapi.json", Package: "aliased", NoValidate: r.Bool()}}
	w.Languages = GenLanguages(r, 1, 3)
	havePy := false
	for _, l := range w.Languages {
		if l.Name == "python" {
			havePy = true
		}
	}
	if !havePy && r.Chance(2, 3) {
		w.Languages = append(w.Languages, LangSpec{Name: "python", Flags: map[string]string{}})
	}
	w.Name = "aliased-mapping -> " + strings.Join(w.LangNames(), ",")
	return w
}

// GenFoldedDefaultsWorkload: a fields_set_default whose keys differ in letter case only
// (they all name the same field) and carry different values, next to other configuration
// maps with several entries (hints, omit lists).
func GenFoldedDefaultsWorkload(r *Rand) *Workload {
	w := &Workload{Files: map[string]string{}, Types: true, Builders: r.Bool()}
	p := &WPackage{Name: "folded", Objects: []WObject{
		{Name: "Panel", T: &WType{K: "struct", Fields: []WField{{Name: "height", T: &WType{K: "int"}}, {Name: "title", T: &WType{K: "string"}}, {Name: "unit", T: &WType{K: "string"}}}}},
	}}
	w.Files["in/folded/schema.json"] = p.RenderJSONSchema()
	w.Inputs = []InputSpec{{Kind: "jsonschema", Path: "in/folded/schema.json", Package: "folded", Transformations: []string{"cfg/folded_passes.yaml"}}}
	var b strings.Builder
	b.WriteString("passes:\n  - fields_set_default:\n      defaults:\n")
	for i, k := range Shuffled(r, []string{"folded.Panel.height", "folded.panel.Height", "folded.PANEL.HEIGHT", "folded.pAnel.heiGht"}) {
		fmt.Fprintf(&b, "        %s: %d\n", k, i+1)
	}
	for i, k := range Shuffled(r, []string{"folded.Panel.title", "folded.panel.TITLE"}) {
		fmt.Fprintf(&b, "        %s: 't%d'\n", k, i)
	}
	// same package and object spelling, only the field part differs in case: the order of
	// application rests on the last component of the key alone
	for i, k := range Shuffled(r, []string{"folded.Panel.unit", "folded.Panel.UNIT", "folded.Panel.Unit", "folded.Panel.uNit"}) {
		fmt.Fprintf(&b, "        %s: 'u%d'\n", k, i)
	}
	b.WriteString("  - hint_object:\n      object: folded.Panel\n      hints:\n        first_hint: a\n        second_hint: b\n        third_hint: c\n")
	w.Files["cfg/folded_passes.yaml"] = b.String()
	w.Languages = GenLanguages(r, 1, 3)
	w.Name = "folded-defaults -> " + strings.Join(w.LangNames(), ",")
	return w
}

// GenFactoriesWorkload: builders with factories in three packages, for the
// languages whose jennies group factories by package (Java, PHP).
func GenFactoriesWorkload(r *Rand) *Workload {
	w := &Workload{Files: map[string]string{}, Types: true, Builders: true, APIRef: r.Bool()}
	str := func() *WType { return &WType{K: "string"} }
	for _, pkg := range Shuffled(r, []string{"facta", "factb", "factc"}) {
		p := &WPackage{Name: pkg, Objects: []WObject{
			{Name: "Thing", T: &WType{K: "struct", Fields: []WField{{Name: "title", T: str(), Required: true}, {Name: "unit", T: str()}}}},
			{Name: "Other", T: &WType{K: "struct", Fields: []WField{{Name: "name", T: str()}, {Name: "thing", T: &WType{K: "ref", Ref: "Thing"}}}}},
		}}
		if r.Bool() {
			w.Files["in/"+pkg+"/schema.json"] = p.RenderJSONSchema()
			w.Inputs = append(w.Inputs, InputSpec{Kind: "jsonschema", Path: "in/" + pkg + "/schema.json", Package: pkg})
		} else {
			w.Files["in/"+pkg+"/openapi.json"] = p.RenderOpenAPI()
			w.Inputs = append(w.Inputs, InputSpec{Kind: "openapi", Path: "in/" + pkg + "/openapi.json", Package: pkg})
		}
		var veneers strings.Builder
		fmt.Fprintf(&veneers, "language: all\npackage: %s\nbuilders:\n", pkg)
		for _, b := range Shuffled(r, []string{"Thing", "Other"}) {
			opt := "title"
			if b == "Other" {
				opt = "name"
			}
			fmt.Fprintf(&veneers, "  - add_factory:\n      by_object: %s\n      factory:\n        name: %sPreset\n        arguments:\n          - name: preset\n            type: {kind: scalar, scalar: {scalar_kind: string}}\n        options:\n          - name: %s\n            parameters:\n              - argument:\n                  name: preset\n                  type: {kind: scalar, scalar: {scalar_kind: string}}\n", b, b, opt)
		}
		w.Files["cfg/veneers/"+pkg+".yaml"] = veneers.String()
	}
	w.VeneerDirs = []string{"cfg/veneers"}
	w.Languages = GenLanguages(r, 1, 2)
	have := map[string]bool{}
	for _, l := range w.Languages {
		have[l.Name] = true
	}
	for _, l := range []string{"java", "php"} {
		if !have[l] && r.Chance(2, 3) {
			w.Languages = append(w.Languages, LangSpec{Name: l, Flags: map[string]string{}})
		}
	}
	w.Name = "factories -> " + strings.Join(w.LangNames(), ",")
	return w
}

// GenMergeWorkload: a struct whose field refers to another struct, and a
// merge_into veneer whose rename_options interact (a chain, and keys differing
// by case): the shape that puts >= 2 entries in the rename map.
func GenMergeWorkload(r *Rand) *Workload {
	w := &Workload{Files: map[string]string{}, Types: true, Builders: true}
	str := func() *WType { return &WType{K: "string"} }
	pkg := &WPackage{Name: "merging", Objects: []WObject{
		{Name: "Inner", T: &WType{K: "struct", Fields: []WField{{Name: "title", T: str()}, {Name: "name", T: str()}, {Name: "unit", T: &WType{K: "int"}}, {Name: "Title", T: &WType{K: "bool"}}}}},
		{Name: "Outer", T: &WType{K: "struct", Fields: []WField{{Name: "inner", T: &WType{K: "ref", Ref: "Inner"}}, {Name: "id", T: str(), Required: true}}}},
	}}
	w.Files["in/merging/schema.json"] = pkg.RenderJSONSchema()
	w.Inputs = []InputSpec{{Kind: "jsonschema", Path: "in/merging/schema.json", Package: "merging"}}
	renames := Pick(r, [][][2]string{
		{{"title", "name"}, {"name", "legacyName"}},
		{{"title", "unit"}, {"unit", "title"}},
		{{"title", "lower"}, {"TITLE", "upper"}, {"Title", "mixed"}},
		{{"name", "unit"}, {"unit", "third"}, {"third", "fourth"}},
	})
	var b strings.Builder
	b.WriteString("language: all\npackage: merging\nbuilders:\n  - merge_into:\n      destination: Outer\n      source: Inner\n      under_path: inner\n      rename_options:\n")
	for _, kv := range renames {
		fmt.Fprintf(&b, "        %s: %s\n", kv[0], kv[1])
	}
	w.Files["cfg/veneers/merge.yaml"] = b.String()
	w.VeneerDirs = []string{"cfg/veneers"}
	w.Languages = GenLanguages(r, 1, 3)
	w.Converters = r.Bool()
	w.Name = "merge-into-renames -> " + strings.Join(w.LangNames(), ",")
	return w
}
