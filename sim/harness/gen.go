package zzverif

import (
	"fmt"
	"strings"
)

var allLanguages = []string{"go", "java", "jsonschema", "openapi", "php", "python", "typescript"}

func genLangFlags(r *Rand, lang string) map[string]string {
	f := map[string]string{}
	b := func(k string, num, den int) {
		if r.Chance(num, den) {
			f[k] = "true"
		}
	}
	switch lang {
	case "go":
		if r.Chance(3, 4) {
			f["package_root"] = yq("github.com/example/gen")
		}
		b("generate_json_marshaller", 1, 2)
		b("generate_strict_unmarshaller", 1, 2)
		b("generate_equal", 1, 2)
		b("generate_validate", 1, 2)
		b("skip_runtime", 1, 4)
		b("any_as_interface", 1, 4)
		// post formatting (x/tools/imports) is by far the slowest step: mostly skipped
		if r.Chance(5, 6) {
			f["skip_post_formatting"] = "true"
		}
	case "java":
		if r.Chance(3, 4) {
			f["package_path"] = yq("com.example.gen")
		}
		b("generate_json_marshaller", 1, 2)
		b("skip_runtime", 1, 4)
	case "php":
		if r.Chance(3, 4) {
			f["namespace_root"] = yq(`Example\Gen`)
		}
		b("generate_json_marshaller", 1, 2)
	case "python":
		if r.Chance(1, 2) {
			f["path_prefix"] = yq("example_sdk")
		}
		b("generate_json_marshaller", 1, 2)
		b("skip_runtime", 1, 4)
	case "typescript":
		if r.Chance(1, 3) {
			f["path_prefix"] = yq("src")
		}
		b("skip_runtime", 1, 4)
		b("skip_index", 1, 4)
		b("enums_as_union_types", 1, 3)
	case "jsonschema", "openapi":
		b("compact", 1, 2)
	}
	return f
}

// GenLanguages draws a language subset (at least one).
func GenLanguages(r *Rand, min, max int) []LangSpec {
	n := min + r.Intn(max-min+1)
	names := Shuffled(r, allLanguages)[:n]
	out := make([]LangSpec, 0, n)
	for _, l := range names {
		out = append(out, LangSpec{Name: l, Flags: genLangFlags(r, l)})
	}
	return out
}

// genPkgInput renders a generated package in one of the three formats.
func genPkgInput(r *Rand, w *Workload, pkg string, format string, opts GenOpts) (InputSpec, *WPackage) {
	if format == "cue" {
		opts.NoCycles = true
	}
	p := GenPackage(r.Fork("pkg:"+pkg), pkg, opts)
	switch format {
	case "jsonschema":
		path := "in/gen_" + pkg + "/schema.json"
		w.Files[path] = p.RenderJSONSchema()
		return InputSpec{Kind: "jsonschema", Path: path, Package: pkg}, p
	case "openapi":
		path := "in/gen_" + pkg + "/openapi.json"
		w.Files[path] = p.RenderOpenAPI()
		return InputSpec{Kind: "openapi", Path: path, Package: pkg, NoValidate: r.Bool()}, p
	default:
		dir := "in/gen_" + pkg + "/" + pkg
		w.Files[dir+"/schema.cue"] = p.RenderCUE(pkg)
		return InputSpec{Kind: "cue", Path: dir, Package: pkg}, p
	}
}

var genPkgNames = []string{"pkga", "pkgb", "pkgc", "dashboard", "common", "panelz"}

// GenWorkload draws a pipeline: 1-3 inputs (corpus or generated, distinct
// packages), a language subset, output toggles, parameters.
func GenWorkload(r *Rand, corpus []CorpusInput, maxLangs int, opts GenOpts) *Workload {
	w := &Workload{Files: map[string]string{}}
	nin := 1 + r.Intn(3)
	usedPkg := map[string]bool{}
	var names []string
	for i := 0; i < nin; i++ {
		if len(corpus) > 0 && r.Chance(1, 2) {
			ci := Pick(r, corpus)
			pkg := ci.Spec.Package
			if pkg == "" {
				pkg = ci.Name[strings.LastIndex(ci.Name, "/")+1:]
			}
			if usedPkg[pkg] {
				continue
			}
			usedPkg[pkg] = true
			for k, v := range ci.Files {
				w.Files[k] = v
			}
			w.Inputs = append(w.Inputs, ci.Spec)
			names = append(names, ci.Name)
			continue
		}
		pkg := Pick(r, genPkgNames)
		if usedPkg[pkg] {
			continue
		}
		usedPkg[pkg] = true
		format := Pick(r, []string{"jsonschema", "jsonschema", "openapi", "openapi", "cue"})
		in, _ := genPkgInput(r, w, pkg, format, opts)
		if r.Chance(1, 4) {
			in.Metadata = map[string]string{"kind": "composable", "variant": Pick(r, []string{"dataquery", "panelcfg"}), "identifier": pkg + "-id"}
		} else if r.Chance(1, 6) {
			in.Metadata = map[string]string{"kind": "core", "identifier": strings.ToUpper(pkg[:1]) + pkg[1:]}
		}
		w.Inputs = append(w.Inputs, in)
		names = append(names, "gen:"+format+":"+pkg)
	}
	if len(w.Inputs) == 0 {
		in, _ := genPkgInput(r, w, "pkga", "jsonschema", opts)
		w.Inputs = append(w.Inputs, in)
		names = append(names, "gen:jsonschema:pkga")
	}
	w.Languages = GenLanguages(r, 1, maxLangs)
	w.Types = r.Chance(9, 10)
	w.Builders = r.Chance(1, 2)
	w.Converters = w.Builders && r.Chance(1, 2)
	w.APIRef = r.Chance(1, 3)
	w.Debug = r.Chance(1, 3)
	if r.Chance(1, 3) {
		w.Params = map[string]string{"alpha": "x", "beta": "%alpha%/y"}
		w.TplData = map[string]string{"Version": "%beta%", "Other": "%alpha%"}
	}
	w.Name = strings.Join(names, "+") + " -> " + strings.Join(w.LangNames(), ",") + fmt.Sprintf(" t=%v b=%v c=%v a=%v", w.Types, w.Builders, w.Converters, w.APIRef)
	return w
}
