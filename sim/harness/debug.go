package zzverif

import (
	"encoding/json"
	"path/filepath"

	"verif.local/simrt"
)

// DumpIR is a debugging aid: it runs the workload stored in a replay file and
// returns the JSON of LoadSchemas, or of ContextForLanguage(lang).
func DumpIR(ctx *Ctx, replayFile []byte, lang string) string {
	var rf struct {
		Payload struct {
			W *Workload `json:"workload"`
		} `json:"payload"`
	}
	if err := json.Unmarshal(replayFile, &rf); err != nil || rf.Payload.W == nil {
		return "no workload in replay file"
	}
	dir := filepath.Join(ctx.Dirs.Root, "dump")
	_, obs, ex := execWorkload(dir, rf.Payload.W, simrt.Schedule{Default: simrt.Canonical}, nil, RunOpts{Inspect: true})
	if obs == nil {
		return "no observation: " + ex.ErrString()
	}
	if lang == "" {
		return obs.IRLoad + "\n" + obs.ErrLoad
	}
	return obs.IRLang[lang] + "\n" + obs.ErrLang[lang]
}
