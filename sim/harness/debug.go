package zzverif

import (
	"os"
	"encoding/json"
	"path/filepath"

	"verif.local/simrt"
)

// DumpIR is a debugging aid: it runs the workload stored in a replay file and
// returns the JSON of LoadSchemas, or of ContextForLanguage(lang).
func DumpIR(ctx *Ctx, replayFile []byte, lang string) string {
	var rf struct {
		Payload struct {
			W *Workload `json:"workload"`
		} `json:"payload"`
	}
	if err := json.Unmarshal(replayFile, &rf); err != nil || rf.Payload.W == nil {
		return "no workload in replay file"
	}
	dir := filepath.Join(ctx.Dirs.Root, "dump")
	_, obs, ex := execWorkload(dir, rf.Payload.W, simrt.Schedule{Default: simrt.Canonical}, nil, RunOpts{Inspect: true})
	if obs == nil {
		return "no observation: " + ex.ErrString()
	}
	if lang == "" {
		return obs.IRLoad + "\n" + obs.ErrLoad
	}
	return obs.IRLang[lang] + "\n" + obs.ErrLang[lang]
}

// MaterialiseReplay writes the workload(s) of a replay file below dir (w/, w2/),
// pipeline file included, so that the real cog binary can be run on them by hand.
func MaterialiseReplay(replayFile []byte, dir string) string {
	var rf struct {
		Payload struct {
			W  *Workload `json:"workload"`
			W2 *Workload `json:"workload2"`
		} `json:"payload"`
	}
	if err := json.Unmarshal(replayFile, &rf); err != nil || rf.Payload.W == nil {
		return "no workload in replay file"
	}
	out := ""
	for name, w := range map[string]*Workload{"w": rf.Payload.W, "w2": rf.Payload.W2} {
		if w == nil {
			continue
		}
		d := filepath.Join(dir, name)
		_ = os.RemoveAll(d)
		if err := os.MkdirAll(d, 0o755); err != nil {
			return err.Error()
		}
		cfg, err := w.Materialise(d)
		if err != nil {
			return err.Error()
		}
		out += name + ": " + cfg + "  (" + w.Name + ")\n"
	}
	return out
}
