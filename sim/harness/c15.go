package zzverif

import (
	"encoding/json"
	"fmt"
	"os"
	"path/filepath"
	"strings"

	"github.com/grafana/cog/internal/ast"
	"github.com/grafana/cog/internal/ast/compiler"
	"verif.local/simrt"
)

// C15 — configurable schema transformations do what they document and nothing
// else: seeded histories of passes against executable reference models.

type c15Payload struct {
	W      *Workload      `json:"workload"`
	Passes []PassSpec     `json:"passes"`
	Sched  simrt.Schedule `json:"schedule"`
}

func schemaGeneric(s *mSchema, loose []string) any {
	objs := make([]any, len(s.Objects))
	for i, o := range s.Objects {
		objs[i] = stripTrails(o, loose)
	}
	return map[string]any{
		"Package": s.Package, "Metadata": stripTrails(s.Metadata, nil), "EntryPoint": s.EntryPoint,
		"EntryPointType": stripTrails(s.EntryPointType, loose), "Objects": objs,
	}
}

func irGeneric(ir mIR, loose []string) any {
	out := make([]any, len(ir))
	for i, s := range ir {
		out[i] = schemaGeneric(s, loose)
	}
	return out
}

// judgeStep compares the real result of one pass with the model's prediction.
func judgeStep(ps PassSpec, before, after mIR, model modelResult) (key string, what string) {
	if model.Skip != "" {
		return "", ""
	}
	if model.WantSame {
		a := make([]any, len(before))
		b := make([]any, len(after))
		for i, s := range before {
			a[i] = map[string]any{"Package": s.Package, "Metadata": s.Metadata, "EntryPoint": s.EntryPoint, "EntryPointType": s.EntryPointType, "Objects": objsAny(s.Objects)}
		}
		for i, s := range after {
			b[i] = map[string]any{"Package": s.Package, "Metadata": s.Metadata, "EntryPoint": s.EntryPoint, "EntryPointType": s.EntryPointType, "Objects": objsAny(s.Objects)}
		}
		if d := firstDiff(a, b, ""); d != "" {
			return "absent-target|" + ps.Kind + "|" + normDiffPath(d), fmt.Sprintf("%s whose target does not exist changed the schemas at %s", ps.Kind, d)
		}
		return "", ""
	}
	// frame: untouched objects are bit-identical (trails included) and keep their relative order
	afterIdx := map[string]mObj{}
	afterPos := map[string]int{}
	for _, s := range after {
		for i, o := range s.Objects {
			afterIdx[objKey(s.Package, o)] = o
			afterPos[objKey(s.Package, o)] = i
		}
	}
	for _, s := range before {
		last := -1
		for _, o := range s.Objects {
			k := objKey(s.Package, o)
			if model.Touched[k] {
				continue
			}
			// an untouched object may have been removed by the model (omit): then it is touched by definition
			ao, ok := afterIdx[k]
			if !ok {
				if modelHas(model.IR, k) {
					return "frame|" + ps.Kind + "|object-lost", fmt.Sprintf("%s: object %s, which the transformation does not target, disappeared", ps.Kind, k)
				}
				continue
			}
			if d := firstDiff(any(o), any(ao), ""); d != "" {
				return "frame|" + ps.Kind + "|" + normDiffPath(d), fmt.Sprintf("%s changed %s, which it does not target, at %s", ps.Kind, k, d)
			}
			if afterPos[k] < last {
				return "frame|" + ps.Kind + "|order", fmt.Sprintf("%s changed the relative order of objects it does not target (%s)", ps.Kind, k)
			}
			last = afterPos[k]
		}
	}
	// effect: the whole IR equals the prediction (transformation trails aside)
	if d := firstDiff(irGeneric(model.IR, model.LooseKeys), irGeneric(after, model.LooseKeys), ""); d != "" {
		return "effect|" + ps.Kind + "|" + normDiffPath(d), fmt.Sprintf("%s %s: result differs from the documented effect at %s (model vs implementation)", ps.Kind, passBrief(ps), d)
	}
	return "", ""
}

func objsAny(os []mObj) []any {
	out := make([]any, len(os))
	for i, o := range os {
		out[i] = o
	}
	return out
}

func modelHas(ir mIR, k string) bool {
	for _, s := range ir {
		for _, o := range s.Objects {
			if objKey(s.Package, o) == k {
				return true
			}
		}
	}
	return false
}

func c15Check(ctx *Ctx, res *CaseResult, dir string, p *c15Payload, regen *Rand) map[string]string {
	out := map[string]string{}
	run := c05Load(dir, p.W, simrt.Schedule{Default: simrt.Canonical}, false)
	ctx.Account(run.Ex)
	res.Execs++
	if run.Schemas == nil {
		ctx.Count("load_failed", 1)
		return out
	}
	cur := run.Schemas
	start := run.Schemas
	var applied compiler.Passes
	allApplied := true
	steps := p.Passes
	n := len(steps)
	keyedPkg, keyedObj := "", ""
	if regen != nil {
		n = 1 + regen.Intn(6)
		steps = nil
		if sr := regen.Side("map-key-ref"); sr.Chance(1, 8) {
			// a reference used as the index type of a map (only a hand-written type can hold
			// one): the history starts by adding such an object, and its second step is a
			// transformation aimed at the object the key refers to
			view := ViewOf(cur)
			if pk := view.pickPkg(sr); pk != nil && len(pk.Objects) > 0 {
				keyedPkg, keyedObj = pk.Name, Pick(sr, pk.Objects).Name
				if n < 2 {
					n = 2
				}
			}
		}
	}
	for i := 0; i < n; i++ {
		var ps PassSpec
		if regen != nil && keyedObj != "" && i == 0 {
			ps = PassSpec{Kind: "add_object", Obj: keyedPkg + ".KeyedBy" + keyedObj, Type: &TypeSpec{K: "map",
				Index: &TypeSpec{K: "ref", RefPkg: keyedPkg, RefName: keyedObj}, Elem: &TypeSpec{K: "string"}}}
			p.Passes = append(p.Passes, ps)
		} else if regen != nil && keyedObj != "" && i == 1 {
			sr := regen.Side("map-key-ref-step")
			ps = GenPassSpec(regen, ViewOf(cur), Pick(sr, []string{"replace_reference", "replace_reference", "rename_object"}))
			ps.Obj = keyedPkg + "." + keyedObj
			p.Passes = append(p.Passes, ps)
		} else if regen != nil {
			kinds := append(append([]string{}, configurablePasses...), "prefix", "append_comment")
			kind := Pick(regen, kinds)
			if kind == "unspec" {
				kind = "omit"
			}
			if regen.Chance(1, 6) {
				// a built-in pass as a set-up step: it has no model (nothing is judged for
				// it) but shapes the IR the later steps work on (generated structs with
				// hints holding the original union, named anonymous structs, ...)
				kind = Pick(regen, []string{"disjunction_infer_mapping", "disjunction_to_type", "anonymous_structs_to_named", "disjunction_of_anonymous_structs_to_explicit"})
			}
			ps = GenPassSpec(regen, ViewOf(cur), kind)
			p.Passes = append(p.Passes, ps)
		} else {
			ps = steps[i]
		}
		before := mirrorOf(cur)
		model := applyModel(before, ps)
		pass, err := ps.Build()
		if err != nil {
			ctx.Count("build_error "+ps.Kind, 1)
			allApplied = false
			continue
		}
		var next ast.Schemas
		CurrentDesc.Store("C15 pass " + ps.Kind)
		ex := Simulate(p.Sched, nil, pipelineMaxTicks, func() error {
			var err error
			next, err = compiler.Passes{pass}.Process(cur)
			return err
		})
		ctx.Account(ex)
		res.Execs++
		if ex.Panic != nil {
			ctx.Count("pass_panicked "+ps.Kind, 1)
			return out
		}
		if ex.Err != nil || next == nil {
			ctx.Count("pass_error "+ps.Kind, 1)
			allApplied = false
			continue
		}
		applied = append(applied, pass)
		// the pass must not have modified its input (Process copies first)
		if d := firstDiff(irGeneric(before, nil), irGeneric(mirrorOf(cur), nil), ""); d != "" {
			out["input-modified|"+ps.Kind] = fmt.Sprintf("%s modified the schemas it was handed at %s", ps.Kind, d)
		}
		after := mirrorOf(next)
		switch {
		case model.Skip != "":
			ctx.Count("skipped "+ps.Kind+": "+model.Skip, 1)
		case model.WantSame:
			ctx.Count("judged-absent "+ps.Kind, 1)
		default:
			ctx.Count("judged-effect "+ps.Kind, 1)
		}
		if k, what := judgeStep(ps, before, after, model); k != "" {
			if _, dup := out[k]; !dup {
				out[k] = fmt.Sprintf("step %d: %s", i, what)
			}
		}
		cur = next
	}
	// the same history as ONE chain (how a transformation file is applied: one copy
	// at the start, then every pass on the same schemas) must give what the passes
	// give one by one, each on its own copy: a difference is interference between
	// the passes of a chain (structure shared between objects, state kept in a pass).
	if allApplied && len(applied) >= 2 {
		// passes keep per-run state: rebuild them
		var fresh compiler.Passes
		for _, ps := range p.Passes {
			if pass, err := ps.Build(); err == nil {
				fresh = append(fresh, pass)
			}
		}
		if len(fresh) == len(applied) {
			var chained ast.Schemas
			CurrentDesc.Store("C15 chain")
			ex := Simulate(p.Sched, nil, pipelineMaxTicks, func() error {
				var err error
				chained, err = fresh.Process(start)
				return err
			})
			ctx.Account(ex)
			res.Execs++
			if ex.Panic == nil && ex.Err == nil && chained != nil {
				ctx.Count("chain_vs_steps_compared", 1)
				a, b := mirrorOf(cur), mirrorOf(chained)
				ga, gb := make([]any, len(a)), make([]any, len(b))
				for i, s := range a {
					ga[i] = map[string]any{"Package": s.Package, "Metadata": s.Metadata, "EntryPoint": s.EntryPoint, "EntryPointType": s.EntryPointType, "Objects": objsAny(s.Objects)}
				}
				for i, s := range b {
					gb[i] = map[string]any{"Package": s.Package, "Metadata": s.Metadata, "EntryPoint": s.EntryPoint, "EntryPointType": s.EntryPointType, "Objects": objsAny(s.Objects)}
				}
				if d := firstDiff(ga, gb, ""); d != "" {
					var kinds []string
					for _, ps := range p.Passes {
						kinds = append(kinds, ps.Kind)
					}
					np := normDiffPath(d)
					if i := strings.Index(np, ".Hints"); i >= 0 {
						np = np[:i] + ".Hints" // what differs inside a hint payload is one finding
					}
					out["chain-vs-steps|"+np] = fmt.Sprintf("the history %v applied as one chain differs from the same passes applied one by one at %s (steps vs chain)", kinds, d)
				}
			}
		}
	}
	return out
}

func init() {
	Register(&Property{
		ID: "C15",
		Setup: func(ctx *Ctx) {
			ctx.Corpus = LoadCorpus(ctx.RepoRoot)
		},
		RunCase: func(ctx *Ctx, seed uint64, idx int) *CaseResult {
			r := NewRand(seed)
			dir := filepath.Join(ctx.Dirs.Root, "case")
			defer os.RemoveAll(dir)
			res := &CaseResult{}
			w := GenWorkload(r, ctx.Corpus, 1, GenOpts{NoAllOf: r.Chance(1, 2)})
			if sr := r.Side("case-twin"); sr.Chance(1, 5) {
				AddCaseTwin(sr, w)
			}
			p := &c15Payload{W: w, Sched: simrt.Schedule{Default: Pick(r, []simrt.Policy{simrt.Canonical, simrt.Reverse, simrt.Shuffle}), Seed: r.U64()}}
			found := c15Check(ctx, res, dir, p, r.Fork("passes"))
			var kinds []string
			for _, ps := range p.Passes {
				kinds = append(kinds, ps.Kind)
			}
			res.Nontrivial = append(res.Nontrivial, ShaStr(w.Fingerprint()+JSONHash(p.Passes)))
			res.Sample = map[string]any{"workload": w.Name, "history": kinds, "violations": len(found)}
			for _, k := range SortedKeys(found) {
				pp := *p
				// shrink the history: drop steps while the key persists
				for i := 0; i < len(pp.Passes); i++ {
					c := pp
					c.Passes = append(append([]PassSpec(nil), pp.Passes[:i]...), pp.Passes[i+1:]...)
					if _, ok := c15Check(ctx, res, dir, &c, nil)[k]; ok {
						pp = c
						i--
					}
				}
				what := found[k]
				if again, ok := c15Check(ctx, res, dir, &pp, nil)[k]; ok {
					what = again
				}
				res.Violations = append(res.Violations, Violation{Key: k, What: what, Payload: pp})
			}
			return res
		},
		Replay: func(ctx *Ctx, payload json.RawMessage) (string, string) {
			var p c15Payload
			must(json.Unmarshal(payload, &p))
			dir := filepath.Join(ctx.Dirs.Root, "replay")
			defer os.RemoveAll(dir)
			found := c15Check(ctx, &CaseResult{}, dir, &p, nil)
			if v, ok := found[ctx.Opt["expect"]]; ok {
				return ctx.Opt["expect"], v
			}
			for _, k := range SortedKeys(found) {
				return k, found[k]
			}
			return "", ""
		},
	})
}

var _ = strings.Contains
