// Command cogsim is the simulation worker. The driver (/verif/check) builds it
// inside the instrumented scratch copy and runs many of them in parallel.
package main

import (
	"verif.local/simrt"
	"encoding/json"
	"flag"
	"fmt"
	"os"
	"runtime"
	"runtime/debug"
	"sort"
	"strings"
	"sync/atomic"
	"time"

	zz "github.com/grafana/cog/internal/zzverif"
)

type result struct {
	Prop       string         `json:"prop"`
	Shard      int            `json:"shard"`
	Done       bool           `json:"done"`
	NextIdx    int            `json:"next_idx"`
	Stats      *zz.Stats      `json:"stats"`
	Nontrivial []string       `json:"nontrivial"`
	SchedPrints int           `json:"sched_prints"`
	StateHashes int           `json:"state_hashes"`
	Violations []zz.Violation `json:"violations"`
	Samples    []any          `json:"samples"`
	WallS      float64        `json:"wall_s"`
}

type optList map[string]string

func (o optList) String() string { return fmt.Sprint(map[string]string(o)) }
func (o optList) Set(s string) error {
	k, v, ok := strings.Cut(s, "=")
	if !ok {
		v = "1"
	}
	o[k] = v
	return nil
}

func main() {
	prop := flag.String("prop", "", "property id")
	tier := flag.String("tier", "quick", "quick|thorough")
	seed := flag.Uint64("seed", 1, "VERIF_SEED")
	shard := flag.Int("shard", 0, "this worker's shard")
	nshards := flag.Int("nshards", 1, "number of shards")
	from := flag.Int("from", 0, "first case index")
	cases := flag.Int("cases", 100, "total number of cases over all shards")
	maxsec := flag.Float64("maxsec", 0, "stop starting new cases after this many seconds (0 = no limit)")
	out := flag.String("out", "", "result file")
	tmp := flag.String("tmp", "", "scratch directory for disk images")
	repo := flag.String("repo", ".", "root of the instrumented copy")
	replay := flag.String("replay", "", "replay file: re-execute and print the violation key")
	only := flag.Int("only", -1, "run only this case index")
	dumpFile := flag.String("dump", "", "debug: print the IR (load, or -opt lang=L) of the workload stored in a replay file")
	opts := optList{}
	flag.Var(opts, "opt", "k=v option")
	flag.Parse()

	debug.SetMaxStack(512 << 20)

	p := zz.Lookup(*prop)
	if p == nil && *replay == "" {
		fmt.Fprintf(os.Stderr, "cogsim: unknown property %q (have %v)\n", *prop, zz.PropertyIDs())
		os.Exit(2)
	}
	if *tmp == "" {
		d, err := os.MkdirTemp("", "cogsim-run-")
		if err != nil {
			fmt.Fprintln(os.Stderr, err)
			os.Exit(2)
		}
		*tmp = d
		defer os.RemoveAll(d)
	}
	ctx := &zz.Ctx{Prop: *prop, Tier: *tier, Seed: *seed, RepoRoot: *repo, Dirs: &zz.RunDirs{Root: *tmp}, Stats: zz.NewStats(), Opt: opts}

	if *dumpFile != "" {
		b, err := os.ReadFile(*dumpFile)
		if err != nil {
			fmt.Fprintln(os.Stderr, err)
			os.Exit(2)
		}
		if opts["materialise"] != "" {
			fmt.Print(zz.MaterialiseReplay(b, opts["materialise"]))
			return
		}
		fmt.Println(zz.DumpIR(ctx, b, opts["lang"]))
		return
	}
	if *replay != "" {
		b, err := os.ReadFile(*replay)
		if err != nil {
			fmt.Fprintln(os.Stderr, err)
			os.Exit(2)
		}
		var rf struct {
			Property string          `json:"property"`
			Key      string          `json:"key"`
			Payload  json.RawMessage `json:"payload"`
		}
		if err := json.Unmarshal(b, &rf); err != nil {
			fmt.Fprintln(os.Stderr, "cogsim: bad replay file:", err)
			os.Exit(2)
		}
		p = zz.Lookup(rf.Property)
		if p == nil {
			fmt.Fprintln(os.Stderr, "cogsim: unknown property in replay file")
			os.Exit(2)
		}
		ctx.Prop = rf.Property
		ctx.Opt["expect"] = rf.Key
		if p.Setup != nil {
			p.Setup(ctx)
		}
		key, what := p.Replay(ctx, rf.Payload)
		res := map[string]string{"expected": rf.Key, "got": key, "what": what}
		b, _ = json.Marshal(res)
		fmt.Println(string(b))
		if key == rf.Key {
			os.Exit(1) // reproduced
		}
		if key != "" {
			os.Exit(3) // a different violation
		}
		os.Exit(0)
	}

	if p.Setup != nil {
		p.Setup(ctx)
	}

	maxViolations := 10
	if v := opts["maxviol"]; v != "" {
		fmt.Sscanf(v, "%d", &maxViolations)
	}
	start := time.Now()
	res := &result{Prop: *prop, Shard: *shard, Stats: ctx.Stats}
	seenKeys := map[string]bool{}
	lastDump := time.Now()
	dump := func(done bool, next int) {
		if *out == "" {
			return
		}
		res.Done = done
		res.NextIdx = next
		res.WallS = time.Since(start).Seconds()
		res.Nontrivial = res.Nontrivial[:0]
		for k := range ctx.Stats.Nontrivial {
			res.Nontrivial = append(res.Nontrivial, k)
		}
		sort.Strings(res.Nontrivial)
		res.SchedPrints = len(ctx.Stats.SchedPrints)
		res.StateHashes = len(ctx.Stats.StateHashes)
		b, err := json.Marshal(res)
		if err != nil {
			fmt.Fprintln(os.Stderr, "cogsim: marshal:", err)
			os.Exit(2)
		}
		tmpf := *out + ".tmp"
		if err := os.WriteFile(tmpf, b, 0o644); err != nil {
			fmt.Fprintln(os.Stderr, "cogsim:", err)
			os.Exit(2)
		}
		_ = os.Rename(tmpf, *out)
	}
	progress := func(idx int) {
		if *out != "" {
			_ = os.WriteFile(*out+".progress", []byte(fmt.Sprint(idx)), 0o644)
		}
	}

	// wall-clock watchdog: a backstop for loops in code without ticks
	var caseIdx atomic.Int64
	var caseStart atomic.Int64
	limit := 60.0
	memLimit := uint64(3) << 30
	if v := opts["memlimit_mb"]; v != "" {
		var mb uint64
		fmt.Sscanf(v, "%d", &mb)
		memLimit = mb << 20
	}
	if v := opts["watchdog"]; v != "" {
		fmt.Sscanf(v, "%g", &limit)
	}
	go func() {
		var lastProgress uint64
		lastSample := time.Now()
		progressing := true
		for {
			time.Sleep(250 * time.Millisecond)
			var ms runtime.MemStats
			runtime.ReadMemStats(&ms)
			if ms.HeapAlloc > memLimit {
				buf := make([]byte, 1<<20)
				n := runtime.Stack(buf, true)
				fmt.Fprintf(os.Stderr, "WATCHDOG-MEMORY case=%d heap %d MiB exceeds the limit; executing: %v\n%s\n", caseIdx.Load(), ms.HeapAlloc>>20, zz.CurrentDesc.Load(), buf[:n])
				os.Exit(5)
			}
			// backstop of the backstop: a whole case (generation, minimisation included) that
			// takes more than 20x the per-execution limit
			if cs := caseStart.Load(); cs != 0 && time.Since(time.Unix(0, cs)).Seconds() > 20*limit {
				buf := make([]byte, 1<<20)
				n := runtime.Stack(buf, true)
				fmt.Fprintf(os.Stderr, "WATCHDOG case=%d the whole case exceeded %.0fs wall clock; last execution: %v\n%s\n", caseIdx.Load(), 20*limit, zz.CurrentDesc.Load(), buf[:n])
				os.Exit(4)
			}
			st := zz.ExecStart.Load()
			if st == 0 {
				continue
			}
			// simulated time still advancing at a fair pace: the machine is slow or loaded,
			// the tick budget will end a runaway loop in instrumented code by itself. The
			// wall clock only decides when ticks have (almost) stopped coming, or after 10x.
			now := time.Now()
			if p := simrt.Progress.Load(); now.Sub(lastSample) > 5*time.Second {
				progressing = p-lastProgress > 200_000
				lastProgress, lastSample = p, now
			}
			elapsed := time.Since(time.Unix(0, st)).Seconds()
			if (elapsed > limit && !progressing) || elapsed > 10*limit {
				buf := make([]byte, 1<<20)
				n := runtime.Stack(buf, true)
				fmt.Fprintf(os.Stderr, "WATCHDOG case=%d one execution exceeded %.0fs wall clock; executing: %v\n%s\n", caseIdx.Load(), limit, zz.CurrentDesc.Load(), buf[:n])
				os.Exit(4)
			}
		}
	}()

	runOne := func(idx int) {
		progress(idx)
		caseIdx.Store(int64(idx))
		caseStart.Store(time.Now().UnixNano())
		defer caseStart.Store(0)
		cr := p.RunCase(ctx, zz.CaseSeed(*seed, *prop, idx), idx)
		ctx.Stats.Cases++
		for _, f := range cr.Nontrivial {
			ctx.Stats.Nontrivial[f] = struct{}{}
		}
		if cr.Sample != nil && len(res.Samples) < 3 {
			res.Samples = append(res.Samples, map[string]any{"case": idx, "detail": cr.Sample})
		}
		for _, v := range cr.Violations {
			if seenKeys[v.Key] || len(res.Violations) >= maxViolations {
				continue
			}
			seenKeys[v.Key] = true
			res.Violations = append(res.Violations, v)
		}
	}

	if *only >= 0 {
		runOne(*only)
		dump(true, *only+1)
		return
	}
	idx := *from
	for ; idx < *cases; idx++ {
		if idx%*nshards != *shard {
			continue
		}
		if *maxsec > 0 && time.Since(start).Seconds() > *maxsec {
			break
		}
		runOne(idx)
		if time.Since(lastDump) > 2*time.Second {
			dump(false, idx+1)
			lastDump = time.Now()
		}
	}
	dump(true, idx)
}
