package zzverif

import (
	"bytes"
	"encoding/json"
	"fmt"
	"sort"
	"strings"

	"gopkg.in/yaml.v3"
)

// Fault is one injected fault, as plain data (it travels in replay files).
type Fault struct {
	Kind string `json:"kind"` // torn flip zero block stale empty dir enoent record | call | stream | http | cancel
	Path string `json:"path,omitempty"`
	Off  int    `json:"off,omitempty"`
	Len  int    `json:"len,omitempty"`
	Byte int    `json:"byte,omitempty"`
	Note string `json:"note,omitempty"`
	// call-level
	Op    string `json:"op,omitempty"`
	Errno string `json:"errno,omitempty"`
	Nth   int    `json:"nth,omitempty"`
	// record-level: the mutated document, fully materialised
	Content *string `json:"content,omitempty"`
}

func (f Fault) String() string {
	switch f.Kind {
	case "call":
		return fmt.Sprintf("call %s(*%s)#%d=%s", f.Op, f.Path, f.Nth, f.Errno)
	case "record":
		return fmt.Sprintf("record %s: %s", f.Path, f.Note)
	}
	return fmt.Sprintf("%s %s@%d+%d", f.Kind, f.Path, f.Off, f.Len)
}

var tokenBoundary = []byte("{}[]:,\"\n")

func biasedOffset(r *Rand, content string) int {
	n := len(content)
	if n == 0 {
		return 0
	}
	switch r.Intn(6) {
	case 0:
		return 0
	case 1:
		return 1 % n
	case 2:
		return n - 1
	case 3, 4:
		// next token boundary after a random position
		p := r.Intn(n)
		for i := p; i < n; i++ {
			if bytes.IndexByte(tokenBoundary, content[i]) >= 0 {
				return i
			}
		}
		return p
	}
	return r.Intn(n)
}

// applyDiskFault changes the disk image of w according to f.
func applyDiskFault(w *Workload, f Fault) {
	c, ok := w.Files[f.Path]
	if !ok && f.Kind != "enoent" {
		return
	}
	switch f.Kind {
	case "torn":
		if f.Off <= len(c) {
			w.Files[f.Path] = c[:f.Off]
		}
	case "flip":
		if f.Off < len(c) {
			b := []byte(c)
			b[f.Off] = byte(f.Byte)
			w.Files[f.Path] = string(b)
		}
	case "zero":
		b := []byte(c)
		for i := f.Off; i < f.Off+f.Len && i < len(b); i++ {
			b[i] = 0
		}
		w.Files[f.Path] = string(b)
	case "block":
		// duplicate a block in place
		if f.Off+f.Len <= len(c) {
			w.Files[f.Path] = c[:f.Off+f.Len] + c[f.Off:f.Off+f.Len] + c[f.Off+f.Len:]
		}
	case "transpose":
		if f.Off+2*f.Len <= len(c) {
			w.Files[f.Path] = c[:f.Off] + c[f.Off+f.Len:f.Off+2*f.Len] + c[f.Off:f.Off+f.Len] + c[f.Off+2*f.Len:]
		}
	case "empty":
		w.Files[f.Path] = ""
	case "enoent":
		delete(w.Files, f.Path)
	case "dir":
		delete(w.Files, f.Path)
		w.Files[f.Path+"/"] = ""
	case "stale", "record":
		if f.Content != nil {
			w.Files[f.Path] = *f.Content
		}
	}
}

// drawDiskFault draws one disk-image fault on path.
func drawDiskFault(r *Rand, w *Workload, path string, kinds []string) Fault {
	c := w.Files[path]
	k := Pick(r, kinds)
	f := Fault{Kind: k, Path: path}
	switch k {
	case "torn":
		f.Off = biasedOffset(r, c)
	case "flip":
		f.Off = biasedOffset(r, c)
		f.Byte = int(Pick(r, []byte{'{', '}', '[', ']', '"', ':', ',', '0', 'x', ' ', '\n', 0x00, 0xff, '-', '#', '%', '*', '&'}))
	case "zero":
		f.Off = biasedOffset(r, c)
		f.Len = 1 + r.Intn(64)
	case "block", "transpose":
		f.Off = biasedOffset(r, c)
		f.Len = 1 + r.Intn(48)
	case "stale":
		// another file of the same extension from the same workload
		ext := path[strings.LastIndex(path, ".")+1:]
		var cands []string
		for _, p := range SortedKeys(w.Files) {
			if p != path && strings.HasSuffix(p, "."+ext) {
				cands = append(cands, p)
			}
		}
		if len(cands) == 0 {
			f.Kind = "empty"
		} else {
			o := Pick(r, cands)
			s := w.Files[o]
			f.Content, f.Note = &s, "content of "+o
		}
	case "record":
		var out, note string
		switch {
		case strings.HasSuffix(path, ".json"):
			out, note = mutateJSON(r, c)
		case strings.HasSuffix(path, ".yaml"):
			out, note = mutateYAML(r, c)
		default:
			out, note = mutateLines(r, c)
		}
		f.Content, f.Note = &out, note
	}
	return f
}

// ---------------------------------------------------------------- record-level corruption

type jsonPath struct {
	parent any // map[string]any or []any
	key    string
	idx    int
}

func collectJSON(v any, parent any, key string, idx int, out *[]jsonPath) {
	if parent != nil {
		*out = append(*out, jsonPath{parent, key, idx})
	}
	switch x := v.(type) {
	case map[string]any:
		ks := make([]string, 0, len(x))
		for k := range x {
			ks = append(ks, k)
		}
		sort.Strings(ks)
		for _, k := range ks {
			collectJSON(x[k], x, k, -1, out)
		}
	case []any:
		for i, e := range x {
			collectJSON(e, x, "", i, out)
		}
	}
}

func (p jsonPath) get() any {
	if m, ok := p.parent.(map[string]any); ok {
		return m[p.key]
	}
	return p.parent.([]any)[p.idx]
}

func (p jsonPath) set(v any) {
	if m, ok := p.parent.(map[string]any); ok {
		m[p.key] = v
		return
	}
	p.parent.([]any)[p.idx] = v
}

func deepCopyJSON(v any) any {
	b, _ := json.Marshal(v)
	var out any
	_ = json.Unmarshal(b, &out)
	return out
}

var schemaKeywords = []string{"type", "items", "properties", "required", "enum", "const", "$ref", "oneOf", "anyOf", "allOf", "additionalProperties", "default", "format", "minimum", "maxLength", "pattern", "nullable", "discriminator", "mapping", "propertyName", "definitions", "components", "schemas", "description"}

// mutateJSON performs one structure-aware corruption of a JSON document.
func mutateJSON(r *Rand, doc string) (string, string) {
	var root any
	dec := json.NewDecoder(strings.NewReader(doc))
	if err := dec.Decode(&root); err != nil {
		return mutateLines(r, doc)
	}
	var nodes []jsonPath
	collectJSON(root, nil, "", -1, &nodes)
	if len(nodes) == 0 {
		return doc, "noop"
	}
	n := Pick(r, nodes)
	note := ""
	where := n.key
	if where == "" {
		where = fmt.Sprintf("[%d]", n.idx)
	}
	switch r.Intn(12) {
	case 0: // drop a key
		if m, ok := n.parent.(map[string]any); ok {
			delete(m, n.key)
			note = "drop key " + n.key
		} else {
			n.set(nil)
			note = "null element " + where
		}
	case 1: // replace by another node of the document
		o := Pick(r, nodes)
		n.set(deepCopyJSON(o.get()))
		note = "replace " + where + " by copy of " + o.key
	case 2: // retype a scalar
		n.set(Pick(r, []any{nil, true, 0, -1, 1.5, "", "string", []any{}, map[string]any{}, []any{"a", 1}, 1e300}))
		note = "retype " + where
	case 3: // self / dangling / cyclic reference
		if m, ok := n.get().(map[string]any); ok {
			target := Pick(r, []string{"#", "#/definitions/Nope", "#/definitions/Root", "#/components/schemas/Nope", "other.json#/x", ""})
			if r.Bool() {
				// reference to a sibling definition: good for cycles
				if pm, ok := n.parent.(map[string]any); ok && len(pm) > 0 {
					ks := SortedKeys(pm)
					prefix := "#/definitions/"
					if strings.Contains(doc, "\"components\"") {
						prefix = "#/components/schemas/"
					}
					target = prefix + Pick(r, ks)
				}
			}
			for k := range m {
				delete(m, k)
			}
			m["$ref"] = target
			note = "turn " + where + " into $ref " + target
		} else {
			n.set(map[string]any{"$ref": "#"})
			note = "turn " + where + " into $ref #"
		}
	case 4: // remove "type"
		if m, ok := n.get().(map[string]any); ok {
			delete(m, "type")
			note = "remove type of " + where
		} else {
			n.set([]any{})
			note = "empty array at " + where
		}
	case 5: // type becomes a list or unknown
		if m, ok := n.get().(map[string]any); ok {
			m["type"] = Pick(r, []any{[]any{"string", "null"}, []any{"object", "array"}, "unknown", []any{}, 3, nil, "null"})
			note = "odd type at " + where
		}
	case 6: // default of the wrong type
		if m, ok := n.get().(map[string]any); ok {
			m["default"] = Pick(r, []any{1, "x", true, []any{1}, map[string]any{"a": 1}, nil, 1.5})
			note = "odd default at " + where
		}
	case 7: // enum oddities
		if m, ok := n.get().(map[string]any); ok {
			m["enum"] = Pick(r, []any{[]any{}, []any{nil}, []any{1, "a"}, []any{true}, []any{1.5, 2.5}, []any{map[string]any{}}, "notalist"})
			if r.Bool() {
				delete(m, "type")
			}
			note = "odd enum at " + where
		}
	case 8: // array without items / items oddities
		if m, ok := n.get().(map[string]any); ok {
			m["type"] = "array"
			switch r.Intn(3) {
			case 0:
				delete(m, "items")
			case 1:
				m["items"] = []any{map[string]any{"type": "string"}, map[string]any{"type": "integer"}}
			default:
				m["items"] = true
			}
			note = "array oddity at " + where
		}
	case 9: // composition oddities
		if m, ok := n.get().(map[string]any); ok {
			k := Pick(r, []string{"oneOf", "anyOf", "allOf"})
			m[k] = Pick(r, []any{[]any{}, []any{map[string]any{}}, []any{map[string]any{"type": "null"}}, []any{map[string]any{"type": "string"}, map[string]any{"type": "null"}, map[string]any{"type": "array"}}, []any{map[string]any{"$ref": "#"}}})
			note = k + " oddity at " + where
		}
	case 10: // discriminator oddities (OpenAPI)
		if m, ok := n.get().(map[string]any); ok {
			m["discriminator"] = Pick(r, []any{map[string]any{"propertyName": "nope"}, map[string]any{"propertyName": "type", "mapping": map[string]any{"a": "#/components/schemas/Nope"}}, map[string]any{}, map[string]any{"propertyName": 3}})
			note = "discriminator oddity at " + where
		}
	default: // rename a key to a schema keyword
		if m, ok := n.parent.(map[string]any); ok {
			nk := Pick(r, schemaKeywords)
			m[nk] = m[n.key]
			delete(m, n.key)
			note = "rename key " + n.key + " to " + nk
		}
	}
	if note == "" {
		n.set(nil)
		note = "null at " + where
	}
	b, err := json.MarshalIndent(root, "", " ")
	if err != nil {
		return doc, "noop"
	}
	return string(b), note
}

func collectYAML(n *yaml.Node, out *[]*yaml.Node) {
	*out = append(*out, n)
	for _, c := range n.Content {
		collectYAML(c, out)
	}
}

func cloneYAML(n *yaml.Node) *yaml.Node {
	cp := *n
	cp.Alias = nil
	cp.Content = nil
	for _, c := range n.Content {
		cp.Content = append(cp.Content, cloneYAML(c))
	}
	return &cp
}

// mutateYAML performs one structure-aware corruption of a YAML document.
func mutateYAML(r *Rand, doc string) (string, string) {
	var root yaml.Node
	if err := yaml.Unmarshal([]byte(doc), &root); err != nil || len(root.Content) == 0 {
		return mutateLines(r, doc)
	}
	var nodes []*yaml.Node
	collectYAML(&root, &nodes)
	n := Pick(r, nodes)
	if top := root.Content[0]; top.Kind == yaml.MappingNode && len(top.Content) >= 2 && r.Chance(1, 6) {
		// the values of the top-level keys are few among many nodes, and each
		// of them is decoded by code of its own
		n = top.Content[2*r.Intn(len(top.Content)/2)+1]
	}
	note := ""
	switch r.Intn(9) {
	case 0: // drop a mapping pair / sequence element
		if (n.Kind == yaml.MappingNode && len(n.Content) >= 2) || (n.Kind == yaml.SequenceNode && len(n.Content) >= 1) {
			step := 1
			if n.Kind == yaml.MappingNode {
				step = 2
			}
			i := r.Intn(len(n.Content)/step) * step
			n.Content = append(n.Content[:i], n.Content[i+step:]...)
			note = "drop entry"
		}
	case 1: // replace a scalar
		if n.Kind == yaml.ScalarNode {
			n.Value = Pick(r, []string{"", "~", "0", "-1", "true", "x.y", "a.b.c", "a.b.c.d", "%l", "%missing%", "/nonexistent/path", "[", "{}"})
			n.Tag = ""
			n.Style = 0
			note = "scalar -> " + n.Value
		}
	case 2: // change the kind
		switch n.Kind {
		case yaml.ScalarNode:
			*n = yaml.Node{Kind: yaml.SequenceNode, Content: []*yaml.Node{{Kind: yaml.ScalarNode, Value: n.Value}}}
			note = "scalar -> sequence"
		case yaml.SequenceNode:
			*n = yaml.Node{Kind: yaml.ScalarNode, Value: "scalar"}
			note = "sequence -> scalar"
		case yaml.MappingNode:
			*n = yaml.Node{Kind: yaml.SequenceNode}
			note = "mapping -> empty sequence"
		}
	case 3: // null out
		if n.Kind != yaml.DocumentNode {
			*n = yaml.Node{Kind: yaml.ScalarNode, Tag: "!!null", Value: "null"}
			note = "null"
		}
	case 4: // duplicate a sequence element / mapping pair with another key
		if n.Kind == yaml.SequenceNode && len(n.Content) > 0 {
			n.Content = append(n.Content, n.Content[r.Intn(len(n.Content))])
			note = "duplicate element"
		}
	case 5: // empty mapping where parameters are expected
		if n.Kind == yaml.MappingNode {
			n.Content = nil
			note = "empty mapping"
		}
	case 6: // copy another subtree here
		o := Pick(r, nodes)
		if n.Kind != yaml.DocumentNode && o.Kind != yaml.DocumentNode && o != n {
			// a deep copy: grafting an ancestor of n by reference would make the tree cyclic
			// (the encoder then never returns - a fault of the harness, not of cog)
			*n = *cloneYAML(o)
			note = "graft other subtree"
		}
	case 7: // negative / huge numbers
		if n.Kind == yaml.ScalarNode {
			n.Value = Pick(r, []string{"-1", "99999999999999999999", "1e400", "0x10", ".inf", "9223372036854775808", "18446744073709551615", ".nan", "2001-12-14"})
			n.Tag = ""
			n.Style = 0
			note = "number -> " + n.Value
		}
	default: // swap two children
		if len(n.Content) >= 2 && n.Kind == yaml.SequenceNode {
			i, j := r.Intn(len(n.Content)), r.Intn(len(n.Content))
			n.Content[i], n.Content[j] = n.Content[j], n.Content[i]
			note = "swap elements"
		}
	}
	if note == "" {
		return mutateLines(r, doc)
	}
	var buf bytes.Buffer
	enc := yaml.NewEncoder(&buf)
	enc.SetIndent(2)
	if err := enc.Encode(&root); err != nil {
		return mutateLines(r, doc)
	}
	return buf.String(), note
}

// dropTypeEntry removes one entry of one hand-written type definition (a mapping that has a
// `kind` key) of a YAML document.
func dropTypeEntry(r *Rand, doc string) (string, string) {
	var root yaml.Node
	if err := yaml.Unmarshal([]byte(doc), &root); err != nil || len(root.Content) == 0 {
		return doc, "unparsable"
	}
	var nodes, defs []*yaml.Node
	collectYAML(&root, &nodes)
	for _, n := range nodes {
		if n.Kind != yaml.MappingNode {
			continue
		}
		for i := 0; i+1 < len(n.Content); i += 2 {
			if n.Content[i].Value == "kind" && len(n.Content) >= 4 {
				defs = append(defs, n)
				break
			}
		}
	}
	if len(defs) == 0 {
		return doc, "no type definition"
	}
	n := Pick(r, defs)
	var cand []int
	for i := 0; i+1 < len(n.Content); i += 2 {
		if k := n.Content[i].Value; k != "kind" || r.Chance(1, 6) {
			cand = append(cand, i)
		}
	}
	if len(cand) == 0 {
		return doc, "nothing to drop"
	}
	i := Pick(r, cand)
	note := "drop " + n.Content[i].Value
	if n.Content[i+1].Kind == yaml.MappingNode && len(n.Content[i+1].Content) >= 2 && r.Bool() {
		// keep the block, empty it (`scalar: {}`)
		n.Content[i+1].Content = nil
		note = "empty " + n.Content[i].Value
	} else {
		n.Content = append(n.Content[:i], n.Content[i+2:]...)
	}
	var buf bytes.Buffer
	enc := yaml.NewEncoder(&buf)
	enc.SetIndent(2)
	if err := enc.Encode(&root); err != nil {
		return doc, "unencodable"
	}
	return buf.String(), note
}

// mutateLines: line-level corruption for formats without a tree here (CUE, templates).
func mutateLines(r *Rand, doc string) (string, string) {
	lines := strings.Split(doc, "\n")
	if len(lines) < 2 {
		return doc + doc, "double"
	}
	i := r.Intn(len(lines))
	switch r.Intn(4) {
	case 0:
		lines = append(lines[:i], lines[i+1:]...)
		return strings.Join(lines, "\n"), fmt.Sprintf("delete line %d", i)
	case 1:
		lines = append(lines[:i+1], lines[i:]...)
		return strings.Join(lines, "\n"), fmt.Sprintf("duplicate line %d", i)
	case 2:
		j := r.Intn(len(lines))
		lines[i], lines[j] = lines[j], lines[i]
		return strings.Join(lines, "\n"), fmt.Sprintf("swap lines %d,%d", i, j)
	}
	lines[i] = strings.TrimRight(lines[i], "{[,") + Pick(r, []string{" | null", " & string", "?", " | *1", ": _", "..."})
	return strings.Join(lines, "\n"), fmt.Sprintf("edit line %d", i)
}
