package zzverif

import (
	"encoding/json"
	"fmt"
	"os"
	"sort"

	"verif.local/simrt"
)

// Violation is one failed oracle, minimised, with everything needed to re-execute it.
type Violation struct {
	Key     string `json:"key"`  // stable identity of the finding (see DESIGN.md §7)
	What    string `json:"what"` // human-readable description
	Payload any    `json:"payload"`
}

// CaseResult is what running one case yields.
type CaseResult struct {
	Execs      int
	Nontrivial []string // fingerprints of the distinct non-trivial situations this case covered
	Violations []Violation
	Sample     any
}

// Property is one check: a case generator + oracle, and a replayer.
type Property struct {
	ID      string
	RunCase func(ctx *Ctx, seed uint64, idx int) *CaseResult
	// Replay re-executes a stored payload and returns the violation key it shows ("" = none).
	Replay func(ctx *Ctx, payload json.RawMessage) (key string, what string)
	// Setup is called once per worker before the first case.
	Setup func(ctx *Ctx)
}

var registry = map[string]*Property{}

func Register(p *Property) { registry[p.ID] = p }

func Lookup(id string) *Property { return registry[id] }

func PropertyIDs() []string {
	var ids []string
	for id := range registry {
		ids = append(ids, id)
	}
	sort.Strings(ids)
	return ids
}

// Ctx carries the per-worker state: configuration, scratch directories, statistics.
type Ctx struct {
	Prop     string
	Tier     string
	Seed     uint64
	RepoRoot string // root of the instrumented copy (corpus lives below it)
	Dirs     *RunDirs
	Corpus   []CorpusInput
	Stats    *Stats
	Opt      map[string]string // free-form options (-opt k=v)
}

// Stats is aggregated by the driver over all workers.
type Stats struct {
	Cases       int                        `json:"cases"`
	Execs       int                        `json:"execs"`
	Ticks       uint64                     `json:"ticks"`
	MapEvents   uint64                     `json:"map_events_multi"`
	NonCanon    uint64                     `json:"map_events_noncanonical"`
	Sites       map[string]*simrt.SiteStat `json:"sites"`
	Unsched     map[string]uint64          `json:"unscheduled_sites"`
	Faults      map[string]int             `json:"faults_consumed"`
	FaultsPlan  map[string]int             `json:"faults_planned"`
	Outcomes    map[string]int             `json:"outcomes"`
	Counters    map[string]int             `json:"counters"`
	Nontrivial  map[string]struct{}        `json:"-"`
	PeakDepth   int                        `json:"peak_depth"`
	SchedPrints map[string]struct{}        `json:"-"`
	StateHashes map[string]struct{}        `json:"-"`
	LogDigest   uint64                     `json:"log_digest"` // rolling hash of every execution's event-log hash, in order
	Redo        int                        `json:"determinism_reexecutions"`
	RedoBad     int                        `json:"determinism_mismatches"`
}

func NewStats() *Stats {
	return &Stats{
		Sites: map[string]*simrt.SiteStat{}, Unsched: map[string]uint64{}, Faults: map[string]int{}, FaultsPlan: map[string]int{},
		Outcomes: map[string]int{}, Counters: map[string]int{}, Nontrivial: map[string]struct{}{},
		SchedPrints: map[string]struct{}{}, StateHashes: map[string]struct{}{},
	}
}

// Account folds one execution into the worker's statistics.
func (c *Ctx) Account(ex *Exec) {
	s := c.Stats
	s.Execs++
	s.Ticks += ex.Ticks
	s.LogDigest = simrt.Mix(s.LogDigest ^ ex.LogHash ^ uint64(ex.Ticks))
	r := ex.Run
	if r == nil {
		return
	}
	if r.PeakDepth > s.PeakDepth {
		s.PeakDepth = r.PeakDepth
	}
	for site, st := range r.Sites {
		agg := s.Sites[site]
		if agg == nil {
			agg = &simrt.SiteStat{}
			s.Sites[site] = agg
		}
		agg.Events += st.Events
		agg.Multi += st.Multi
		agg.NonCanon += st.NonCanon
		if st.MaxKeys > agg.MaxKeys {
			agg.MaxKeys = st.MaxKeys
		}
		s.MapEvents += st.Multi
		s.NonCanon += st.NonCanon
	}
	for site, n := range r.Unsched {
		s.Unsched[site] += n
	}
	if r.FS != nil {
		for _, f := range r.FS.Fired {
			_ = f
		}
	}
	if c.OptBool("verbose") {
		if ex.Panic != nil {
			fmt.Fprintf(os.Stderr, "PANIC %s: %s\n", ex.Panic.Key(), truncate(ex.Panic.Value, 200))
			if c.OptBool("stacks") {
				fmt.Fprintln(os.Stderr, ex.Panic.Stack)
			}
		} else if ex.Err != nil {
			fmt.Fprintf(os.Stderr, "ERR %s\n", truncate(ex.Err.Error(), 300))
		}
	}
	switch {
	case ex.Panic != nil:
		s.Outcomes["panic"]++
	case ex.Err != nil:
		s.Outcomes["error"]++
	default:
		s.Outcomes["ok"]++
	}
}

func (c *Ctx) Count(name string, n int) { c.Stats.Counters[name] += n }

func (c *Ctx) OptBool(name string) bool { return c.Opt[name] == "1" || c.Opt[name] == "true" }
