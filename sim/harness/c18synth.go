package zzverif

import (
	"fmt"
	"reflect"
	"strings"

	"github.com/grafana/cog/internal/ast"
	"github.com/grafana/cog/internal/ast/compiler"
	"github.com/grafana/cog/internal/orderedmap"
	"verif.local/simrt"
)

// Synthetic IR for C18: values of the ast types drawn field by field through
// reflection, so that "every declared field" and "any shape and nesting depth"
// do not rest on what the three parsers happen to produce (enums whose members
// have different types, hints and defaults at every level, constraints, nil
// checks, envelopes, factories...). The only shape rule kept is the one every
// producer keeps: a Type carries exactly the payload its Kind names.

var synthWords = []string{"a", "b", "Foo", "bar", "pkg", "Some_Name", "x-y", ""}

var (
	tAstType    = reflect.TypeOf(ast.Type{})
	tObjectsMap = reflect.TypeOf((*orderedmap.Map[string, ast.Object])(nil))
)

func synthAny(r *Rand, depth int) any {
	switch r.Intn(8) {
	case 0:
		return nil
	case 1:
		return Pick(r, synthWords)
	case 2:
		return int64(r.Intn(100)) - 50
	case 3:
		return float64(r.Intn(1000)) / 8
	case 4:
		return r.Bool()
	case 5:
		if depth > 2 {
			return "deep"
		}
		n := r.Intn(3)
		out := make([]any, 0, n)
		for i := 0; i < n; i++ {
			out = append(out, synthAny(r, depth+1))
		}
		return out
	case 6:
		if depth > 2 {
			return int64(7)
		}
		out := map[string]any{}
		for i, n := 0, r.Intn(3); i < n; i++ {
			out[Pick(r, synthWords)] = synthAny(r, depth+1)
		}
		return out
	}
	return Pick(r, synthWords)
}

func synthType(r *Rand, depth int) ast.Type {
	kinds := []ast.Kind{ast.KindScalar, ast.KindRef, ast.KindScalar, ast.KindRef, ast.KindEnum, ast.KindStruct, ast.KindArray, ast.KindMap,
		ast.KindDisjunction, ast.KindIntersection, ast.KindComposableSlot, ast.KindConstantRef, ast.KindEnum}
	if depth > 5 {
		kinds = kinds[:4]
	}
	t := ast.Type{Kind: Pick(r, kinds), Nullable: r.Bool()}
	fill := func(p any) { synthFill(r, reflect.ValueOf(p).Elem(), depth+1) }
	switch t.Kind {
	case ast.KindScalar:
		t.Scalar = &ast.ScalarType{}
		fill(t.Scalar)
	case ast.KindRef:
		t.Ref = &ast.RefType{}
		fill(t.Ref)
	case ast.KindEnum:
		t.Enum = &ast.EnumType{}
		fill(t.Enum)
	case ast.KindStruct:
		t.Struct = &ast.StructType{}
		fill(t.Struct)
	case ast.KindArray:
		t.Array = &ast.ArrayType{}
		fill(t.Array)
	case ast.KindMap:
		t.Map = &ast.MapType{}
		fill(t.Map)
	case ast.KindDisjunction:
		t.Disjunction = &ast.DisjunctionType{}
		fill(t.Disjunction)
	case ast.KindIntersection:
		t.Intersection = &ast.IntersectionType{}
		fill(t.Intersection)
	case ast.KindComposableSlot:
		t.ComposableSlot = &ast.ComposableSlotType{}
		fill(t.ComposableSlot)
	case ast.KindConstantRef:
		t.ConstantReference = &ast.ConstantReferenceType{}
		fill(t.ConstantReference)
	}
	if r.Chance(1, 3) {
		t.Default = synthAny(r, 0)
	}
	if r.Chance(1, 3) {
		t.Hints = ast.JenniesHints{}
		for i, n := 0, 1+r.Intn(2); i < n; i++ {
			t.Hints[Pick(r, synthWords)] = synthAny(r, 1)
		}
	}
	if r.Chance(1, 3) {
		t.PassesTrail = []string{"SomePass[x]", "Other"}[:1+r.Intn(2)]
	}
	return t
}

// synthFill draws a value for every exported field below v (v is addressable).
func synthFill(r *Rand, v reflect.Value, depth int) {
	t := v.Type()
	if t == tAstType {
		v.Set(reflect.ValueOf(synthType(r, depth)))
		return
	}
	if t == tObjectsMap {
		m := orderedmap.New[string, ast.Object]()
		for i, n := 0, r.Intn(4); i < n && depth < 8; i++ {
			var o ast.Object
			synthFill(r, reflect.ValueOf(&o).Elem(), depth+1)
			if o.Name == "" {
				o.Name = fmt.Sprintf("Obj%d", i)
			}
			m.Set(o.Name, o)
		}
		v.Set(reflect.ValueOf(m))
		return
	}
	switch v.Kind() {
	case reflect.Ptr:
		if depth > 7 || r.Chance(1, 4) {
			return
		}
		if t.Elem().Kind() == reflect.Struct && strings.Contains(t.Elem().PkgPath(), "orderedmap") {
			return // an instantiation this generator has no constructor for
		}
		p := reflect.New(t.Elem())
		synthFill(r, p.Elem(), depth+1)
		v.Set(p)
	case reflect.Struct:
		for i := 0; i < v.NumField(); i++ {
			if t.Field(i).IsExported() {
				synthFill(r, v.Field(i), depth+1)
			}
		}
	case reflect.Slice:
		n := r.Intn(4)
		if depth > 7 {
			n = 0
		}
		if n == 0 {
			return
		}
		s := reflect.MakeSlice(t, n, n)
		for i := 0; i < n; i++ {
			synthFill(r, s.Index(i), depth+1)
		}
		v.Set(s)
	case reflect.Map:
		if t.Key().Kind() != reflect.String || r.Chance(1, 3) {
			return
		}
		m := reflect.MakeMap(t)
		for i, n := 0, 1+r.Intn(2); i < n; i++ {
			k := reflect.New(t.Key()).Elem()
			k.SetString(Pick(r, synthWords))
			e := reflect.New(t.Elem()).Elem()
			synthFill(r, e, depth+1)
			m.SetMapIndex(k, e)
		}
		v.Set(m)
	case reflect.Interface:
		if t.NumMethod() == 0 {
			if x := synthAny(r, 0); x != nil {
				v.Set(reflect.ValueOf(x))
			}
		}
	case reflect.String:
		v.SetString(Pick(r, synthWords))
	case reflect.Bool:
		v.SetBool(r.Bool())
	case reflect.Int, reflect.Int8, reflect.Int16, reflect.Int32, reflect.Int64:
		v.SetInt(int64(r.Intn(7)))
	case reflect.Uint, reflect.Uint8, reflect.Uint16, reflect.Uint32, reflect.Uint64:
		v.SetUint(uint64(r.Intn(7)))
	case reflect.Float32, reflect.Float64:
		v.SetFloat(float64(r.Intn(100)) / 4)
	}
}

var synthRoots = []string{"Type", "Object", "Schema", "Schemas", "Builder", "Option", "Assignment", "BuilderFactory", "Constructor", "Argument"}

func synthRoot(r *Rand, kind string) any {
	mk := func(p any) any { synthFill(r, reflect.ValueOf(p).Elem(), 0); return p }
	switch kind {
	case "Type":
		return mk(&ast.Type{})
	case "Object":
		return mk(&ast.Object{})
	case "Schema":
		return mk(&ast.Schema{})
	case "Schemas":
		s := ast.Schemas{}
		for i, n := 0, 1+r.Intn(3); i < n; i++ {
			s = append(s, mk(&ast.Schema{}).(*ast.Schema))
		}
		return &s
	case "Builder":
		return mk(&ast.Builder{})
	case "Option":
		return mk(&ast.Option{})
	case "Assignment":
		return mk(&ast.Assignment{})
	case "BuilderFactory":
		return mk(&ast.BuilderFactory{})
	case "Constructor":
		return mk(&ast.Constructor{})
	}
	return mk(&ast.Argument{})
}

// c18Synth judges every DeepCopy routine reachable below one synthetic root.
func c18Synth(ctx *Ctx, seed uint64, kind string) (map[string]copyFinding, int) {
	findings := map[string]copyFinding{}
	events := 0
	ex := Simulate(simrt.Schedule{Default: simrt.Canonical}, nil, pipelineMaxTicks, func() error {
		root := synthRoot(NewRand(seed), kind)
		walkAndCopy(ctx, reflect.ValueOf(root), map[uintptr]bool{}, &events, findings, 0)
		return nil
	})
	ctx.Account(ex)
	if ex.Panic != nil {
		k := "copy|panic|" + ex.Panic.Key()
		findings[k] = copyFinding{k, "DeepCopy of a synthetic " + kind + " panicked: " + ex.Panic.Value}
	}
	ctx.Count("synthetic_roots "+kind, 1)
	return findings, events
}

// c18DupRule: "in every duplicate rule". A duplicate_object pass (with and without
// omit_fields) is applied to synthetic schemas; the duplicate must equal its source in every
// declared field but name, self reference, trail and the omitted fields; the source object of
// the result must equal the source object of the input (a transformation of the copy - the
// omission - does not change the original); source and duplicate share no typed structure.
func c18DupRule(ctx *Ctx, seed uint64) (map[string]copyFinding, int) {
	findings := map[string]copyFinding{}
	events := 0
	add := func(k, w string) {
		if _, dup := findings[k]; !dup {
			findings[k] = copyFinding{k, w}
		}
	}
	ex := Simulate(simrt.Schedule{Default: simrt.Canonical}, nil, pipelineMaxTicks, func() error {
		r := NewRand(seed)
		schemas := ast.Schemas{}
		for i, n := 0, 1+r.Intn(2); i < n; i++ {
			s := &ast.Schema{}
			synthFill(r, reflect.ValueOf(s).Elem(), 2)
			s.Package = fmt.Sprintf("p%d", i)
			if s.Objects == nil {
				s.Objects = orderedmap.New[string, ast.Object]()
			}
			// at least one struct object with fields
			var o ast.Object
			synthFill(r, reflect.ValueOf(&o).Elem(), 3)
			o.Name = "Src"
			st := &ast.StructType{}
			synthFill(r, reflect.ValueOf(st).Elem(), 3)
			for len(st.Fields) < 2 {
				var f ast.StructField
				synthFill(r, reflect.ValueOf(&f).Elem(), 4)
				st.Fields = append(st.Fields, f)
			}
			for j := range st.Fields {
				st.Fields[j].Name = fmt.Sprintf("f%d", j)
			}
			o.Type = ast.Type{Kind: ast.KindStruct, Struct: st}
			s.Objects.Set(o.Name, o)
			var fixed []ast.Object
			s.Objects.Iterate(func(name string, obj ast.Object) {
				obj.SelfRef = ast.RefType{ReferredPkg: s.Package, ReferredType: name}
				obj.Name = name
				fixed = append(fixed, obj)
			})
			for _, obj := range fixed {
				s.Objects.Set(obj.Name, obj)
			}
			schemas = append(schemas, s)
		}
		srcPkg := schemas[r.Intn(len(schemas))].Package
		dstPkg := schemas[r.Intn(len(schemas))].Package
		pass := &compiler.DuplicateObject{
			Object: compiler.ObjectReference{Package: srcPkg, Object: "Src"},
			As:     compiler.ObjectReference{Package: dstPkg, Object: "Dup"},
		}
		if r.Chance(2, 3) {
			pass.OmitFields = []string{Pick(r, []string{"f0", "F1", "f1", "nothing"})}
		}
		before, _ := schemas.LocateObject(srcPkg, "Src")
		snapshot := before.DeepCopy()
		out, err := pass.Process(schemas)
		if err != nil {
			ctx.Count("duprule_errors", 1)
			return nil
		}
		events++
		ctx.Count("duplicate_object_rules_judged", 1)
		outS := ast.Schemas(out)
		srcAfter, ok1 := outS.LocateObject(srcPkg, "Src")
		dup, ok2 := outS.LocateObject(dstPkg, "Dup")
		if !ok1 || !ok2 {
			add("duprule|duplicate_object|missing", fmt.Sprintf("after duplicate_object the source (found=%v) or the duplicate (found=%v) is missing", ok1, ok2))
			return nil
		}
		if d := copyDiff(reflect.ValueOf(&snapshot).Elem(), reflect.ValueOf(&srcAfter).Elem(), "", 0); d != "" {
			add("duprule|duplicate_object|source-changed:"+normPath(strings.SplitN(d, ":", 2)[0]), "duplicate_object (omit_fields="+strings.Join(pass.OmitFields, ",")+") changed the object it copies at "+d)
		}
		if d := copyDiff(reflect.ValueOf(&snapshot).Elem(), reflect.ValueOf(&before).Elem(), "", 0); d != "" {
			add("duprule|duplicate_object|input-changed:"+normPath(strings.SplitN(d, ":", 2)[0]), "duplicate_object changed the source object of the schemas it was handed at "+d)
		}
		// the duplicate, with what the rule documents put back, equals the source
		want := snapshot.DeepCopy()
		want.Name, want.SelfRef = dup.Name, dup.SelfRef
		want.PassesTrail = dup.PassesTrail
		if len(pass.OmitFields) > 0 {
			var kept []ast.StructField
			for _, f := range want.Type.Struct.Fields {
				omitted := false
				for _, o := range pass.OmitFields {
					if strings.EqualFold(o, f.Name) {
						omitted = true
					}
				}
				if !omitted {
					kept = append(kept, f)
				}
			}
			want.Type.Struct.Fields = kept
		}
		if d := copyDiff(reflect.ValueOf(&want).Elem(), reflect.ValueOf(&dup).Elem(), "", 0); d != "" {
			add("duprule|duplicate_object|unequal:"+normPath(strings.SplitN(d, ":", 2)[0]), "the duplicate differs from its source at "+d)
		}
		if typed, _ := sharedBetween(reflect.ValueOf(&srcAfter).Elem(), reflect.ValueOf(&dup).Elem()); len(typed) > 0 {
			add("duprule|duplicate_object|shared:"+topField(shortestFirst(typed)[0]), fmt.Sprintf("the duplicate shares mutable structure with its source at %v", firstN(shortestFirst(typed), 5)))
		}
		return nil
	})
	ctx.Account(ex)
	if ex.Panic != nil {
		k := "duprule|panic|" + ex.Panic.Key()
		findings[k] = copyFinding{k, "duplicate_object on synthetic schemas panicked: " + ex.Panic.Value}
	}
	return findings, events
}
