package zzverif

import (
	"encoding/json"
	"fmt"
	"sort"
	"strings"
)

// A World is a small generated schema model that can be rendered as JSON
// Schema, OpenAPI 3 or CUE. It is biased towards the shapes that put >= 2
// entries into every map cog ranges over (two candidate discriminator fields,
// several definitions, several properties, ...).

type WType struct {
	K        string    `json:"k"` // string int number bool any null array map struct ref enum const union allof datetime bytes
	Elem     *WType    `json:"elem,omitempty"`
	Fields   []WField  `json:"fields,omitempty"`
	Ref      string    `json:"ref,omitempty"`
	Enum     []any     `json:"enum,omitempty"`
	Const    any       `json:"const,omitempty"`
	Branches []*WType  `json:"branches,omitempty"`
	Nullable bool      `json:"nullable,omitempty"`
	Default  any       `json:"default,omitempty"`
	Min      *float64  `json:"min,omitempty"`
	Max      *float64  `json:"max,omitempty"`
	MinLen   *int      `json:"min_len,omitempty"`
	MaxLen   *int      `json:"max_len,omitempty"`
	Disc     string    `json:"disc,omitempty"`         // openapi discriminator property
	DiscMap  [][2]string `json:"disc_map,omitempty"`   // openapi discriminator mapping
}

type WField struct {
	Name     string `json:"name"`
	T        *WType `json:"t"`
	Required bool   `json:"required,omitempty"`
	Desc     string `json:"desc,omitempty"`
}

type WObject struct {
	Name string `json:"name"`
	T    *WType `json:"t"`
	Desc string `json:"desc,omitempty"`
}

type WPackage struct {
	Name    string    `json:"name"`
	Objects []WObject `json:"objects"`
	// DefsTwin: JSON Schema only - the name of an object that also exists under `$defs`
	// with another type, both being referenced (two documents' conventions merged by hand)
	DefsTwin string `json:"defs_twin,omitempty"`
}

// GenOpts restricts the generator to shapes a format (or a set of output
// languages) is known to accept, so that most runs get past the parser.
type GenOpts struct {
	NoCycles bool // references only point to objects declared earlier
	NoAllOf  bool
	Wild     bool // also emit shapes that are legal but unusual (C04 territory)
	// Plain keeps unions flat: branches are scalars or references, `T | null`
	// only over a non-union T, no anonymous struct inside a union, no allOf.
	Plain bool
	// ConstRefs forces the constant-reference block (CUE only expresses it).
	ConstRefs bool
}

type worldGen struct {
	r        *Rand
	opts     GenOpts
	objNames []string
	structs  []string // names of objects that are structs (targets for union-of-refs)
	declared []string // objects declared so far (NoCycles)
	depth    int
	inStruct int // > 0 while generating the fields of a struct
}

var fieldNames = []string{"id", "name", "kind", "type", "value", "tags", "meta", "opts", "title", "Size", "size", "items", "labels", "from", "to", "enabled", "1st", "with-dash", "uid", "spec"}
var objNamesPool = []string{"Alpha", "Beta", "Gamma", "Delta", "alpha", "Options", "FieldConfig", "Panel", "Query", "Node", "Leaf", "Tree", "Item", "Cfg", "spec", "Metadata", "Kind", "Mode", "Shape", "Circle", "Square"}

func fptr(f float64) *float64 { return &f }
func iptr(i int) *int         { return &i }

func (g *worldGen) scalar() *WType {
	r := g.r
	switch r.Intn(9) {
	case 0:
		t := &WType{K: "string"}
		if r.Chance(1, 4) {
			t.Default = Pick(r, []any{"", "x", "hello world", "a'b"})
		}
		if r.Chance(1, 5) {
			t.MinLen = iptr(1 + r.Intn(3))
		}
		if r.Chance(1, 5) {
			t.MaxLen = iptr(8 + r.Intn(50))
		}
		return t
	case 1:
		t := &WType{K: "int"}
		if r.Chance(1, 4) {
			t.Default = Pick(r, []any{0, 1, 42, -7})
		}
		if r.Chance(1, 5) {
			t.Min = fptr(float64(r.Intn(5)))
		}
		if r.Chance(1, 5) {
			t.Max = fptr(float64(10 + r.Intn(100)))
		}
		return t
	case 2:
		t := &WType{K: "number"}
		if r.Chance(1, 4) {
			t.Default = Pick(r, []any{0.5, 1.0, 3.25})
		}
		return t
	case 3:
		t := &WType{K: "bool"}
		if r.Chance(1, 3) {
			t.Default = r.Bool()
		}
		return t
	case 4:
		return &WType{K: "any"}
	case 5:
		return &WType{K: "datetime"}
	case 6:
		if g.opts.Wild {
			return &WType{K: "const", Const: Pick(r, []any{"fixed", "other", "A", 7, true})}
		}
		return &WType{K: "const", Const: Pick(r, []any{"fixed", "other", "A"})}
	case 7:
		if r.Bool() {
			return &WType{K: "enum", Enum: Pick(r, [][]any{{"a", "b", "c"}, {"up", "down"}, {"1", "2"}, {"with space", "x-y"}, {"", "n"}, {" lead", "trail ", "mid dle"}})}
		}
		return &WType{K: "enum", Enum: Pick(r, [][]any{{1, 2, 3}, {0, 10}, {-1, 1}})}
	default:
		return &WType{K: "string"}
	}
}

// compositeDefault sometimes gives an array, map or struct a default value with
// several entries (JSON Schema and OpenAPI only; CUE ignores it). Object-valued
// defaults reach the jennies as Go maps. Drawn from a side stream.
func (g *worldGen) compositeDefault(t *WType) *WType {
	sr := g.r.Side("composite-default")
	if !sr.Chance(1, 4) {
		return t
	}
	val := func(e *WType, i int) any {
		if e == nil {
			return nil
		}
		switch e.K {
		case "string":
			return fmt.Sprintf("v%d", i)
		case "int":
			return i + 1
		case "number":
			return float64(i) + 0.5
		case "bool":
			return i%2 == 0
		case "any":
			return fmt.Sprintf("any%d", i)
		}
		return nil
	}
	switch t.K {
	case "array":
		if v := val(t.Elem, 0); v != nil {
			t.Default = []any{v, val(t.Elem, 1)}
		}
	case "map":
		if v := val(t.Elem, 0); v != nil {
			t.Default = map[string]any{"zeta": v, "alpha": val(t.Elem, 1), "mid": val(t.Elem, 2)}
		}
	case "struct":
		d := map[string]any{}
		for i, f := range t.Fields {
			if v := val(f.T, i); v != nil && f.T.Default == nil {
				d[f.Name] = v
			}
		}
		if len(d) >= 2 {
			t.Default = d
		}
	}
	return t
}

func (g *worldGen) structType(maxFields int) *WType {
	r := g.r
	n := 1 + r.Intn(maxFields)
	used := map[string]bool{}
	t := &WType{K: "struct"}
	g.inStruct++
	defer func() { g.inStruct-- }()
	for i := 0; i < n; i++ {
		name := Pick(r, fieldNames)
		if used[name] {
			continue
		}
		used[name] = true
		f := WField{Name: name, T: g.typ(), Required: r.Chance(3, 5)}
		if r.Chance(1, 4) {
			f.Desc = Pick(r, []string{"a field", "multi\nline comment", "  padded  "})
		}
		t.Fields = append(t.Fields, f)
	}
	return t
}

func (g *worldGen) ref() *WType {
	pool := g.objNames
	if g.opts.NoCycles {
		pool = g.declared
	}
	if g.inStruct == 0 && !g.opts.Wild {
		// a reference that is not below a struct field may only target a
		// struct: cycles of aliases through arrays/maps/unions are legal
		// input, but what they do to cog is C04's question.
		pool = g.structRefPool()
	}
	if len(pool) == 0 {
		return &WType{K: "string"}
	}
	return &WType{K: "ref", Ref: Pick(g.r, pool)}
}

func (g *worldGen) structRefPool() []string {
	if !g.opts.NoCycles {
		return g.structs
	}
	var out []string
	for _, s := range g.structs {
		for _, d := range g.declared {
			if d == s {
				out = append(out, s)
			}
		}
	}
	return out
}

func (g *worldGen) typ() *WType {
	r := g.r
	g.depth++
	defer func() { g.depth-- }()
	if g.depth > 3 {
		if r.Bool() {
			return g.ref()
		}
		return g.scalar()
	}
	switch r.Intn(14) {
	case 0, 1, 2, 3:
		return g.scalar()
	case 4, 5:
		return g.ref()
	case 6:
		return g.compositeDefault(&WType{K: "array", Elem: g.typ()})
	case 7:
		return g.compositeDefault(&WType{K: "map", Elem: g.typ()})
	case 8:
		return g.compositeDefault(g.structType(3))
	case 9:
		if sr := r.Side("const-union-default"); sr.Chance(1, 5) {
			// a union of constants of one kind with a default: `*"auto" | "manual"`
			vals := Pick(sr, [][]any{{"auto", "manual"}, {"a", "b", "c"}, {1, 2}})
			t := &WType{K: "union", Default: vals[0]}
			for _, v := range vals {
				t.Branches = append(t.Branches, &WType{K: "const", Const: v})
			}
			return t
		}
		// union of scalars
		n := 2 + r.Intn(2)
		t := &WType{K: "union"}
		seenK := map[string]bool{}
		for i := 0; i < n; i++ {
			b := g.scalar()
			if g.opts.Plain && (seenK[b.K] || b.K == "any") {
				continue // flat unions of distinct, concrete scalar kinds only
			}
			seenK[b.K] = true
			t.Branches = append(t.Branches, b)
		}
		if len(t.Branches) < 2 {
			t.Branches = []*WType{{K: "string"}, {K: "int"}}
		}
		if r.Chance(1, 3) {
			if r.Chance(1, 3) {
				t.Branches = append([]*WType{{K: "null"}}, t.Branches...)
			} else {
				t.Branches = append(t.Branches, &WType{K: "null"})
			}
		}
		return t
	case 10:
		// T | null
		t := g.typ()
		if g.opts.Plain && (t.K == "union" || t.K == "allof") {
			t = g.scalar()
		}
		if r.Chance(1, 3) {
			return &WType{K: "union", Branches: []*WType{{K: "null"}, t}} // `null | T` is as valid as `T | null`
		}
		return &WType{K: "union", Branches: []*WType{t, {K: "null"}}}
	case 11:
		// union of refs to structs
		if pool := g.structRefPool(); len(pool) >= 2 {
			n := 2 + r.Intn(2)
			t := &WType{K: "union"}
			seen := map[string]bool{}
			for i := 0; i < n; i++ {
				s := Pick(r, pool)
				if seen[s] {
					continue
				}
				seen[s] = true
				t.Branches = append(t.Branches, &WType{K: "ref", Ref: s})
			}
			if len(t.Branches) >= 2 {
				return t
			}
		}
		return g.ref()
	case 12:
		// union mixing anonymous structs / arrays
		if g.opts.Plain {
			return &WType{K: "array", Elem: g.structType(2)}
		}
		return &WType{K: "union", Branches: []*WType{g.structType(2), {K: "array", Elem: g.scalar()}}}
	default:
		// allOf
		if g.opts.NoAllOf || g.opts.Plain {
			return g.structType(3)
		}
		// a union as a direct member of the composition
		var unionMember *WType
		if sr := r.Side("allof-union"); sr.Chance(1, 4) {
			unionMember = &WType{K: "union", Branches: []*WType{{K: "string"}, {K: "int"}}}
			if sr.Bool() {
				unionMember = &WType{K: "union", Branches: []*WType{{K: Pick(sr, []string{"string", "bool"})}, {K: "null"}}}
			}
		}
		if pool := g.structRefPool(); len(pool) > 0 && r.Bool() {
			if unionMember != nil {
				return &WType{K: "allof", Branches: []*WType{{K: "ref", Ref: Pick(r, pool)}, unionMember}}
			}
			return &WType{K: "allof", Branches: []*WType{{K: "ref", Ref: Pick(r, pool)}, g.structType(2)}}
		}
		if unionMember != nil {
			return &WType{K: "allof", Branches: []*WType{g.structType(2), unionMember}}
		}
		return &WType{K: "allof", Branches: []*WType{g.structType(2), g.structType(2)}}
	}
}

// GenPackage generates one package. Discriminated-union friendly: a family of
// structs sharing one or two constant-valued fields is always included.
func GenPackage(r *Rand, name string, opts GenOpts) *WPackage {
	g := &worldGen{r: r, opts: opts}
	p := &WPackage{Name: name}
	nobj := 2 + r.Intn(6)
	names := Shuffled(r, objNamesPool)[:nobj]
	g.objNames = names
	// decide which objects are structs up front so that refs can target them
	kinds := make([]int, nobj)
	for i := range names {
		kinds[i] = r.Intn(10)
		if kinds[i] < 6 {
			g.structs = append(g.structs, names[i])
		}
	}
	for i, n := range names {
		var t *WType
		switch {
		case kinds[i] < 6:
			t = g.structType(5)
		case kinds[i] == 6:
			t = g.scalar()
		case kinds[i] == 7:
			t = &WType{K: "array", Elem: g.typ()}
		case kinds[i] == 8:
			t = &WType{K: "map", Elem: g.typ()}
		default:
			t = g.typ()
			if t.K == "ref" && !opts.Wild {
				// no alias of an alias: chains of bare references are C04's business
				if pool := g.structRefPool(); len(pool) > 0 && pool[0] != n {
					t = &WType{K: "ref", Ref: pool[0]}
				} else {
					t = g.scalar()
				}
			}
		}
		g.declared = append(g.declared, n)
		o := WObject{Name: n, T: t}
		if r.Chance(1, 3) {
			o.Desc = Pick(r, []string{"An object.", "line1\nline2", "trailing space "})
		}
		p.Objects = append(p.Objects, o)
	}
	// wild: a cycle of pure aliases, an alias leading into it, and a struct using that alias
	if opts.Wild && r.Chance(1, 3) {
		p.Objects = append(p.Objects,
			WObject{Name: "CycA", T: &WType{K: "ref", Ref: "CycB"}},
			WObject{Name: "CycB", T: &WType{K: "ref", Ref: "CycA"}},
			WObject{Name: "IntoCycle", T: &WType{K: "ref", Ref: "CycA"}},
			WObject{Name: "UsesCycle", T: &WType{K: "struct", Fields: []WField{{Name: "f", T: &WType{K: "ref", Ref: Pick(r, []string{"IntoCycle", "CycA"})}, Required: r.Bool()}}}},
		)
	}
	// a discriminated family: 2-3 structs with constant `type` (and maybe `kind`) fields
	if r.Chance(2, 3) {
		fam := 2 + r.Intn(2)
		twoDisc := r.Bool()
		numDisc := !opts.Plain && r.Chance(1, 3)
		var famNames []string
		lowerFamily := r.Side("family-names:" + name).Chance(1, 3)
		for i := 0; i < fam; i++ {
			n := fmt.Sprintf("Variant%c", 'A'+i)
			if lowerFamily {
				// definition names are whatever the schema's author chose: snake_case, lowerCamel
				n = []string{"variant_a", "variantB", "variant_c"}[i]
			}
			famNames = append(famNames, n)
			t := &WType{K: "struct"}
			t.Fields = append(t.Fields, WField{Name: "type", T: &WType{K: "const", Const: fmt.Sprintf("v%c", 'a'+i)}, Required: true})
			if twoDisc {
				t.Fields = append(t.Fields, WField{Name: "kind", T: &WType{K: "const", Const: fmt.Sprintf("k%c", 'a'+i)}, Required: true})
			}
			if numDisc {
				// a numeric constant common to all variants, sorting before the string ones
				t.Fields = append(t.Fields, WField{Name: "apiRevision", T: &WType{K: "const", Const: i + 1}, Required: true})
			}
			t.Fields = append(t.Fields, WField{Name: "payload", T: g.scalar(), Required: r.Bool()})
			p.Objects = append(p.Objects, WObject{Name: n, T: t})
		}
		u := &WType{K: "union"}
		for _, n := range famNames {
			u.Branches = append(u.Branches, &WType{K: "ref", Ref: n})
		}
		if r.Chance(1, 3) {
			u.Disc = "type"
			for i, n := range famNames {
				u.DiscMap = append(u.DiscMap, [2]string{fmt.Sprintf("v%c", 'a'+i), n})
			}
			if sr := r.Side("disc-alias"); sr.Chance(1, 2) {
				// several discriminator values for one type (legal in an OpenAPI mapping)
				u.DiscMap = append(u.DiscMap, [2]string{"zz_alias", famNames[0]}, [2]string{"aa_alias", famNames[0]})
			}
		}
		holder := &WType{K: "struct", Fields: []WField{
			{Name: "one", T: u, Required: true},
			{Name: "many", T: &WType{K: "array", Elem: u}},
		}}
		p.Objects = append(p.Objects, WObject{Name: "Holder", T: holder})
		g.objNames = append(g.objNames, "Holder")
	}
	if sr := r.Side("defs-twin:" + name); sr.Chance(1, 5) && len(p.Objects) > 0 {
		p.DefsTwin = Pick(sr, p.Objects).Name
	}
	// a named `T | null` (and a user of it): an object that is a scalar alias for the
	// languages whose chain folds the null branch into nullability, and a union for the others
	if sr := r.Side("nullable-alias:" + name); !opts.Plain && sr.Chance(1, 4) {
		inner := Pick(sr, []*WType{{K: "string"}, {K: "int"}, {K: "array", Elem: &WType{K: "string"}}, {K: "map", Elem: &WType{K: "bool"}}})
		p.Objects = append(p.Objects,
			WObject{Name: "MaybeLabel", T: &WType{K: "union", Branches: []*WType{inner, {K: "null"}}}},
			WObject{Name: "UsesLabel", T: &WType{K: "struct", Fields: []WField{{Name: "label", T: &WType{K: "ref", Ref: "MaybeLabel"}, Required: sr.Bool()}, {Name: "labels", T: &WType{K: "array", Elem: &WType{K: "ref", Ref: "MaybeLabel"}}}}}},
		)
	}
	// constant references (only CUE can express them; the other formats see plain constants):
	// an enum object and a struct whose fields pin one of its members. Drawn from a side
	// stream so that the rest of the package does not depend on whether this block exists.
	if sr := r.Side("constref:" + name); opts.ConstRefs || sr.Chance(1, 3) {
		members := []any{"ka", "kb", "kc"}
		p.Objects = append(p.Objects, WObject{Name: "KindEnum", T: &WType{K: "enum", Enum: members}})
		uses := &WType{K: "struct", Fields: []WField{
			{Name: "k", T: &WType{K: "constref", Ref: "KindEnum", Const: Pick(sr, members)}, Required: true},
			{Name: "other", T: &WType{K: "constref", Ref: "KindEnum", Const: Pick(sr, members)}, Required: sr.Bool()},
		}}
		if sr.Bool() {
			uses.Fields = append(uses.Fields, WField{Name: "free", T: &WType{K: "ref", Ref: "KindEnum"}})
		}
		p.Objects = append(p.Objects, WObject{Name: "UsesKind", T: uses})
	}
	return p
}

// ---------------------------------------------------------------- JSON Schema rendering

func (t *WType) jsonSchema(refPrefix string) map[string]any {
	m := map[string]any{}
	switch t.K {
	case "string":
		m["type"] = "string"
	case "datetime":
		m["type"] = "string"
		m["format"] = "date-time"
	case "bytes":
		m["type"] = "string"
		m["format"] = "byte"
	case "int":
		m["type"] = "integer"
	case "number":
		m["type"] = "number"
	case "bool":
		m["type"] = "boolean"
	case "null":
		m["type"] = "null"
	case "any":
	case "array":
		m["type"] = "array"
		m["items"] = t.Elem.jsonSchema(refPrefix)
	case "map":
		m["type"] = "object"
		m["additionalProperties"] = t.Elem.jsonSchema(refPrefix)
	case "struct":
		m["type"] = "object"
		props := map[string]any{}
		var req []string
		for _, f := range t.Fields {
			fs := f.T.jsonSchema(refPrefix)
			if f.Desc != "" {
				if _, isRef := fs["$ref"]; !isRef {
					fs["description"] = f.Desc
				}
			}
			props[f.Name] = fs
			if f.Required {
				req = append(req, f.Name)
			}
		}
		m["properties"] = props
		if len(req) > 0 {
			m["required"] = req
		}
	case "ref":
		m["$ref"] = refPrefix + t.Ref
	case "enum":
		m["enum"] = t.Enum
		if _, ok := t.Enum[0].(string); ok {
			m["type"] = "string"
		} else {
			m["type"] = "integer"
		}
	case "const", "constref":
		m["const"] = t.Const
		switch t.Const.(type) {
		case string:
			m["type"] = "string"
		case bool:
			m["type"] = "boolean"
		default:
			m["type"] = "integer"
		}
	case "union":
		var bs []any
		for _, b := range t.Branches {
			bs = append(bs, b.jsonSchema(refPrefix))
		}
		m["oneOf"] = bs
	case "allof":
		var bs []any
		for _, b := range t.Branches {
			bs = append(bs, b.jsonSchema(refPrefix))
		}
		m["allOf"] = bs
	}
	if t.Default != nil && t.K != "ref" {
		m["default"] = t.Default
	}
	if t.Min != nil {
		m["minimum"] = *t.Min
	}
	if t.Max != nil {
		m["maximum"] = *t.Max
	}
	if t.MinLen != nil {
		m["minLength"] = *t.MinLen
	}
	if t.MaxLen != nil {
		m["maxLength"] = *t.MaxLen
	}
	return m
}

// RenderJSONSchema renders the package as a draft-07 document whose root
// object references every other definition (so that all of them are parsed).
func (p *WPackage) RenderJSONSchema() string { return p.renderJSONSchemaRoot("Root") }

// RenderJSONSchemaEntry renders the package without the synthetic Root object: the
// document's root is a reference to the given object (which has to reach the others).
func (p *WPackage) RenderJSONSchemaEntry(entry string) string {
	defs := map[string]any{}
	for _, o := range p.Objects {
		defs[o.Name] = o.T.jsonSchema("#/definitions/")
	}
	doc := map[string]any{
		"$schema":     "http://json-schema.org/draft-07/schema#",
		"$ref":        "#/definitions/" + entry,
		"definitions": defs,
	}
	b, _ := json.MarshalIndent(doc, "", " ")
	return string(b)
}

func (p *WPackage) renderJSONSchemaRoot(rootName string) string {
	defs := map[string]any{}
	rootProps := map[string]any{}
	for _, o := range p.Objects {
		s := o.T.jsonSchema("#/definitions/")
		if o.Desc != "" {
			if _, isRef := s["$ref"]; !isRef {
				s["description"] = o.Desc
			}
		}
		defs[o.Name] = s
		rootProps["f_"+o.Name] = map[string]any{"$ref": "#/definitions/" + o.Name}
	}
	if p.DefsTwin != "" {
		rootProps["a_twin_"+p.DefsTwin] = map[string]any{"$ref": "#/$defs/" + p.DefsTwin}
		rootProps["z_twin_"+p.DefsTwin] = map[string]any{"$ref": "#/$defs/" + p.DefsTwin}
	}
	defs[rootName] = map[string]any{"type": "object", "properties": rootProps}
	doc := map[string]any{
		"$schema":     "http://json-schema.org/draft-07/schema#",
		"$ref":        "#/definitions/" + rootName,
		"definitions": defs,
	}
	if p.DefsTwin != "" {
		doc["$defs"] = map[string]any{p.DefsTwin: map[string]any{"type": "boolean", "description": "the other " + p.DefsTwin}}
	}
	b, _ := json.MarshalIndent(doc, "", " ")
	return string(b)
}

// ---------------------------------------------------------------- OpenAPI rendering

func (t *WType) openAPI() map[string]any {
	m := t.jsonSchema("#/components/schemas/")
	switch t.K {
	case "null":
		// OpenAPI 3.0 has no null type
		return map[string]any{"type": "string", "nullable": true}
	case "const", "constref":
		delete(m, "const")
		m["enum"] = []any{t.Const}
	case "int":
		m["format"] = "int64"
	case "number":
		m["format"] = "double"
	case "array":
		m["items"] = t.Elem.openAPI()
	case "map":
		m["additionalProperties"] = t.Elem.openAPI()
	case "struct":
		props := map[string]any{}
		for _, f := range t.Fields {
			fs := f.T.openAPI()
			if f.Desc != "" {
				if _, isRef := fs["$ref"]; !isRef {
					fs["description"] = f.Desc
				}
			}
			props[f.Name] = fs
		}
		m["properties"] = props
	case "union", "allof":
		var bs []any
		for _, b := range t.Branches {
			if b.K == "null" {
				continue
			}
			bs = append(bs, b.openAPI())
		}
		if t.K == "union" {
			m["oneOf"] = bs
			if t.Disc != "" {
				d := map[string]any{"propertyName": t.Disc}
				if len(t.DiscMap) > 0 {
					mp := map[string]any{}
					for _, kv := range t.DiscMap {
						mp[kv[0]] = "#/components/schemas/" + kv[1]
					}
					d["mapping"] = mp
				}
				m["discriminator"] = d
			}
		} else {
			m["allOf"] = bs
		}
	}
	if t.Nullable {
		if _, isRef := m["$ref"]; !isRef {
			m["nullable"] = true
		}
	}
	return m
}

func (p *WPackage) RenderOpenAPI() string {
	schemas := map[string]any{}
	for _, o := range p.Objects {
		s := o.T.openAPI()
		if o.Desc != "" {
			if _, isRef := s["$ref"]; !isRef {
				s["description"] = o.Desc
			}
		}
		schemas[o.Name] = s
	}
	doc := map[string]any{
		"openapi":    "3.0.0",
		"info":       map[string]any{"title": p.Name, "version": "1.0.0"},
		"paths":      map[string]any{},
		"components": map[string]any{"schemas": schemas},
	}
	b, _ := json.MarshalIndent(doc, "", " ")
	return string(b)
}

// ---------------------------------------------------------------- CUE rendering (subset)

func cueLabel(s string) string {
	ok := s != ""
	for i, c := range s {
		if !(c == '_' || (c >= 'a' && c <= 'z') || (c >= 'A' && c <= 'Z') || (i > 0 && c >= '0' && c <= '9')) {
			ok = false
		}
	}
	if ok {
		return s
	}
	b, _ := json.Marshal(s)
	return string(b)
}

func cueLit(v any) string {
	b, _ := json.Marshal(v)
	return string(b)
}

func (t *WType) cue(ind string) string {
	switch t.K {
	case "string":
		s := "string"
		if t.Default != nil {
			s = "string | *" + cueLit(t.Default)
		}
		return s
	case "datetime":
		return "string"
	case "bytes":
		return "bytes"
	case "int":
		s := "int64"
		if t.Min != nil {
			s += fmt.Sprintf(" & >=%d", int(*t.Min))
		}
		if t.Max != nil {
			s += fmt.Sprintf(" & <=%d", int(*t.Max))
		}
		if t.Default != nil {
			s = "(" + s + ") | *" + cueLit(t.Default)
			if t.Min == nil && t.Max == nil {
				s = "int64 | *" + cueLit(t.Default)
			}
		}
		return s
	case "number":
		if t.Default != nil {
			return "float64 | *" + cueLit(t.Default)
		}
		return "float64"
	case "bool":
		if t.Default != nil {
			return "bool | *" + cueLit(t.Default)
		}
		return "bool"
	case "null":
		return "null"
	case "any":
		return "_"
	case "array":
		return "[..." + cueParen(t.Elem.cue(ind)) + "]"
	case "map":
		return "{\n" + ind + "\t[string]: " + cueParen(t.Elem.cue(ind+"\t")) + "\n" + ind + "}"
	case "struct":
		var b strings.Builder
		b.WriteString("{\n")
		for _, f := range t.Fields {
			opt := "?"
			if f.Required {
				opt = ""
			}
			if f.Desc != "" {
				for _, l := range strings.Split(f.Desc, "\n") {
					b.WriteString(ind + "\t// " + l + "\n")
				}
			}
			b.WriteString(ind + "\t" + cueLabel(f.Name) + opt + ": " + f.T.cueTop(ind+"\t") + "\n")
		}
		b.WriteString(ind + "}")
		return b.String()
	case "ref":
		return "#" + t.Ref
	case "enum":
		if _, isStr := t.Enum[0].(string); !isStr {
			// numeric enums need a field attribute (see cueAttr); nested ones degrade to int64
			if ind != "\x00top" {
				return "int64"
			}
		}
		var parts []string
		for _, e := range t.Enum {
			parts = append(parts, cueLit(e))
		}
		return strings.Join(parts, " | ")
	case "const":
		return cueLit(t.Const)
	case "constref":
		// `#Enum & "member"`: the one shape cog's CUE front end turns into a constant reference
		return "#" + t.Ref + " & " + cueLit(t.Const)
	case "union":
		var parts []string
		for _, b := range t.Branches {
			e := b.cue(ind)
			if t.Default != nil && b.K == "const" && b.Const == t.Default {
				e = "*" + e
			}
			parts = append(parts, e)
		}
		return strings.Join(parts, " | ")
	case "allof":
		var parts []string
		for _, b := range t.Branches {
			parts = append(parts, b.cue(ind))
		}
		return strings.Join(parts, " & ")
	}
	return "_"
}

// cueParen parenthesises an expression only when it has an operator at top
// level (cog's CUE front end is sensitive to superfluous parentheses).
func cueParen(e string) string {
	if strings.Contains(e, " | ") || strings.Contains(e, " & ") {
		return "(" + e + ")"
	}
	return e
}

// cueTop renders a type at field or definition level, where attributes are allowed.
func (t *WType) cueTop(ind string) string {
	if t.K == "enum" {
		if _, isStr := t.Enum[0].(string); !isStr {
			var names []string
			for i := range t.Enum {
				names = append(names, fmt.Sprintf("member%d", i))
			}
			return t.cue("\x00top") + fmt.Sprintf(" @cog(kind=\"enum\",memberNames=\"%s\")", strings.Join(names, "|"))
		}
	}
	return t.cue(ind)
}

// RenderCUE renders the package as a CUE file of definitions. Only a subset of
// the model is expressible; the rest degrades to `_`.
func (p *WPackage) RenderCUE(pkgName string) string {
	var b strings.Builder
	b.WriteString("package " + pkgName + "\n\n")
	for _, o := range p.Objects {
		if o.Desc != "" {
			for _, l := range strings.Split(o.Desc, "\n") {
				b.WriteString("// " + l + "\n")
			}
		}
		b.WriteString("#" + o.Name + ": " + o.T.cueTop("") + "\n\n")
	}
	return b.String()
}

// ObjectNames returns the names of the package's objects, sorted.
func (p *WPackage) ObjectNames() []string {
	var out []string
	for _, o := range p.Objects {
		out = append(out, o.Name)
	}
	sort.Strings(out)
	return out
}
