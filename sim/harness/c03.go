package zzverif

import (
	cog "github.com/grafana/cog"
	"context"
	"encoding/json"
	"fmt"
	"os"
	"path/filepath"
	"sort"
	"strings"

	"github.com/grafana/cog/internal/codegen"
	"verif.local/simrt"
)

// C03 — generation is deterministic: schedule search over every map-range site.

// pipelineMaxTicks bounds one pipeline execution outside C04 (which uses its own,
// much larger budget): ~1000x the ticks of a typical run.
const pipelineMaxTicks = 30_000_000

type c03Payload struct {
	W         *Workload      `json:"workload"`
	Alt       simrt.Schedule `json:"alt_schedule"`
	Mode      string         `json:"mode"` // schedule | rerun
	Component string         `json:"component"`
	Differs   []string       `json:"differs,omitempty"`
}

// execWorkload materialises w into dir (wiped first) and runs it under sched.
// When both generation and inspection are requested they are two simulated
// executions: a budget abort (or panic) while generating must not take the
// inspection down with it, or the comparison of outcomes would depend on which
// language fails first.
func execWorkload(dir string, w *Workload, sched simrt.Schedule, fsPlan *simrt.FSPlan, opts RunOpts) (map[string]string, *Observation, *Exec) {
	if opts.Generate && opts.Inspect && fsPlan == nil {
		g := opts
		g.Inspect = false
		sumG, obsG, exG := execWorkload(dir, w, sched, nil, g)
		i := opts
		i.Generate = false
		sumI, obsI, exI := execWorkload(dir, w, sched, nil, i)
		for k, v := range sumI {
			if k == "run.status" || k == "files.paths" {
				continue
			}
			sumG[k] = v
		}
		if obsG != nil && obsI != nil {
			obsG.IRLoad, obsG.IRLang, obsG.ErrLoad, obsG.ErrLang = obsI.IRLoad, obsI.IRLang, obsI.ErrLoad, obsI.ErrLang
			obsG.Panics = append(obsG.Panics, obsI.Panics...)
		}
		// account both executions as one
		exG.Ticks += exI.Ticks
		exG.LogHash = simrt.Mix(exG.LogHash ^ exI.LogHash)
		for site, st := range exI.Run.Sites {
			agg := exG.Run.Sites[site]
			if agg == nil {
				agg = &simrt.SiteStat{}
				exG.Run.Sites[site] = agg
			}
			agg.Events += st.Events
			agg.Multi += st.Multi
			agg.NonCanon += st.NonCanon
			if st.MaxKeys > agg.MaxKeys {
				agg.MaxKeys = st.MaxKeys
			}
		}
		if exG.Panic == nil {
			exG.Panic = exI.Panic
		}
		if exG.Err == nil {
			exG.Err = exI.Err
		}
		return sumG, obsG, exG
	}
	_ = os.RemoveAll(dir)
	must(os.MkdirAll(dir, 0o755))
	cfg, err := w.Materialise(dir)
	must(err)
	CurrentDesc.Store(w.Name)
	var obs *Observation
	ex := Simulate(sched, fsPlan, pipelineMaxTicks, func() error {
		var err error
		opts.FinalPasses = w.FinalPasses
		obs, err = RunPipeline(cfg, w.ExtraParams(), opts)
		return err
	})
	sum := map[string]string{}
	if obs != nil {
		sum = obs.Summary()
	}
	if !opts.Inspect {
		delete(sum, "load.status")
	}
	if !opts.Generate {
		delete(sum, "run.status")
		delete(sum, "files.paths")
	}
	// C03 compares outcomes, not failure modes: which language fails first (and
	// whether it fails by error or by panic, C04's business) follows the order
	// of the language loop, but "the run fails" does not.
	if ex.Panic != nil {
		sum = map[string]string{}
		if opts.Generate {
			sum["run.status"] = "fail"
		}
		if opts.Inspect {
			sum["load.status"] = "fail"
		}
	}
	if sum["run.status"] == "err" {
		sum["run.status"] = "fail"
		for k := range sum {
			if strings.HasPrefix(k, "file") {
				delete(sum, k)
			}
		}
	}
	return sum, obs, ex
}

// componentClass names the most significant differing component.
func componentClass(diff []string) string {
	if len(diff) == 0 {
		return ""
	}
	has := func(pred func(string) bool) bool {
		for _, d := range diff {
			if pred(d) {
				return true
			}
		}
		return false
	}
	switch {
	case has(func(s string) bool { return s == "panic" || strings.HasSuffix(s, ".status") }):
		return "status"
	case has(func(s string) bool { return s == "files.paths" || strings.HasPrefix(s, "file:") }):
		return "files"
	case has(func(s string) bool { return s == "ir.load" }):
		return "ir.load"
	}
	for _, d := range diff {
		if strings.HasPrefix(d, "ir.") {
			return d
		}
	}
	return diff[0]
}

func nonCanonSites(ex *Exec) []string {
	var out []string
	for s, st := range ex.Run.Sites {
		if st.NonCanon > 0 {
			out = append(out, s)
		}
	}
	sort.Strings(out)
	return out
}

func schedFor(alt simrt.Schedule, sites []string, pol func(string) simrt.Policy) simrt.Schedule {
	s := simrt.Schedule{Default: simrt.Canonical, Seed: alt.Seed, KeyOrder: alt.KeyOrder, Sites: map[string]simrt.Policy{}}
	for _, x := range sites {
		s.Sites[x] = pol(x)
	}
	return s
}

func policyOf(s simrt.Schedule, site string) simrt.Policy {
	if p, ok := s.Sites[site]; ok {
		return p
	}
	if s.SubsetMod > 0 {
		if simrt.Hash64(s.Seed, site)%s.SubsetMod == 0 {
			return s.SubsetPolicy
		}
		return s.Default
	}
	return s.Default
}

// ddmin over a set of strings: smallest subset for which test stays true.
func ddmin(items []string, test func([]string) bool, budget *int) []string {
	n := 2
	for len(items) >= 2 && *budget > 0 {
		chunk := (len(items) + n - 1) / n
		reduced := false
		for i := 0; i < len(items) && *budget > 0; i += chunk {
			end := i + chunk
			if end > len(items) {
				end = len(items)
			}
			subset := items[i:end]
			*budget--
			if test(subset) {
				items, n, reduced = append([]string(nil), subset...), 2, true
				break
			}
			compl := append(append([]string(nil), items[:i]...), items[end:]...)
			if len(compl) > 0 && n > 2 {
				*budget--
				if test(compl) {
					items, reduced = compl, true
					if n > 2 {
						n--
					}
					break
				}
			}
		}
		if !reduced {
			if n >= len(items) {
				break
			}
			n *= 2
			if n > len(items) {
				n = len(items)
			}
		}
	}
	return items
}

// c03Key identifies a finding by the range statement(s) whose order decides
// the output; the component that differs is part of the description only.
func c03Key(component string, sites []string) string {
	short := make([]string, len(sites))
	for i, s := range sites {
		short[i] = strings.TrimPrefix(s, "github.com/grafana/cog/")
	}
	return "nondeterminism|" + strings.Join(short, ",")
}

// shrinkWorkload drops parts of w while keep(w') holds.
func shrinkWorkload(w *Workload, keep func(*Workload) bool, budget *int) *Workload {
	best := w
	try := func(c *Workload) bool {
		if *budget <= 0 {
			return false
		}
		*budget--
		if keep(c) {
			best = c
			return true
		}
		return false
	}
	for i := 0; i < len(best.Languages) && len(best.Languages) > 1; i++ {
		c := best.Clone()
		c.Languages = append(c.Languages[:i], c.Languages[i+1:]...)
		if try(c) {
			i--
		}
	}
	for i := 0; i < len(best.Inputs) && len(best.Inputs) > 1; i++ {
		c := best.Clone()
		c.Inputs = append(c.Inputs[:i], c.Inputs[i+1:]...)
		if try(c) {
			i--
		}
	}
	for _, f := range []func(*Workload) bool{
		func(c *Workload) bool { x := c.Converters; c.Converters = false; return x },
		func(c *Workload) bool { x := c.APIRef; c.APIRef = false; return x },
		func(c *Workload) bool { x := c.Builders; c.Builders = false; c.Converters = false; return x },
		func(c *Workload) bool { x := c.Debug; c.Debug = false; return x },
		func(c *Workload) bool { x := len(c.Params) > 0; c.Params = nil; c.TplData = nil; return x },
		func(c *Workload) bool { x := len(c.VeneerDirs) > 0; c.VeneerDirs = nil; return x },
		func(c *Workload) bool { x := len(c.CommonPass) > 0; c.CommonPass = nil; return x },
	} {
		c := best.Clone()
		if f(c) {
			try(c)
		}
	}
	for li := range best.Languages {
		for _, k := range SortedKeys(best.Languages[li].Flags) {
			c := best.Clone()
			delete(c.Languages[li].Flags, k)
			try(c)
		}
	}
	// drop files nobody needs any more
	used := func(c *Workload, p string) bool {
		for _, in := range c.Inputs {
			if strings.HasPrefix(p, filepath.Dir(in.Path)) || strings.HasPrefix(p, in.Path) {
				return true
			}
			for _, t := range in.Transformations {
				if t == p {
					return true
				}
			}
		}
		for _, t := range c.CommonPass {
			if t == p {
				return true
			}
		}
		for _, d := range c.VeneerDirs {
			if strings.HasPrefix(p, d) {
				return true
			}
		}
		return false
	}
	c := best.Clone()
	for p := range c.Files {
		if !used(c, p) {
			delete(c.Files, p)
		}
	}
	if len(c.Files) < len(best.Files) {
		try(c)
	}
	return best
}

// c03Compare runs base and alt and reports (component, differing names).
func c03Compare(dir string, w *Workload, alt simrt.Schedule, opts RunOpts) (string, []string, *Exec, *Exec) {
	base := simrt.Schedule{Default: simrt.Canonical}
	s0, _, e0 := execWorkload(dir, w, base, nil, opts)
	s1, _, e1 := execWorkload(dir, w, alt, nil, opts)
	d := DiffSummaries(s0, s1)
	return componentClass(d), d, e0, e1
}

// rerunSamePipeline: the same Pipeline value generates twice.
func rerunSamePipeline(dir string, w *Workload) (string, []string, *Exec) {
	_ = os.RemoveAll(dir)
	must(os.MkdirAll(dir, 0o755))
	cfg, err := w.Materialise(dir)
	must(err)
	var a, b map[string]string
	ex := Simulate(simrt.Schedule{Default: simrt.Canonical}, nil, pipelineMaxTicks, func() error {
		resetGlobals()
		p, err := codegen.PipelineFromFile(cfg, codegen.Parameters(w.ExtraParams()))
		if err != nil {
			return err
		}
		run := func() map[string]string {
			out := map[string]string{}
			fs, err := p.Run(context.Background())
			if err != nil {
				out["run.status"] = "err"
				return out
			}
			out["run.status"] = "ok"
			for _, f := range fs.AsFiles() {
				out["file:"+f.RelativePath] = Sha(f.Data)
			}
			return out
		}
		a = run()
		b = run()
		return nil
	})
	if ex.Panic != nil || a == nil || b == nil {
		return "", nil, ex
	}
	d := DiffSummaries(a, b)
	return componentClass(d), d, ex
}

// facadeFiles runs the workload's CUE entry point (the input that declares cue_imports)
// through the library facade - cog.TypesFromSchema().CUEModule(..., CUEImports(map), ...) -
// the one caller that builds the list of imports from a Go map.
func facadeFiles(dir string, w *Workload, sched simrt.Schedule) (map[string]string, *Exec) {
	_ = os.RemoveAll(dir)
	must(os.MkdirAll(dir, 0o755))
	_, err := w.Materialise(dir)
	must(err)
	var main *InputSpec
	for i := range w.Inputs {
		if len(w.Inputs[i].CueImports) > 0 {
			main = &w.Inputs[i]
		}
	}
	out := map[string]string{}
	if main == nil {
		return out, &Exec{}
	}
	imports := map[string]string{}
	for _, ci := range main.CueImports {
		if rel, imp, ok := strings.Cut(ci, ":"); ok {
			imports[imp] = filepath.Join(dir, rel)
		}
	}
	CurrentDesc.Store("C03 facade " + w.Name)
	ex := Simulate(sched, nil, pipelineMaxTicks, func() error {
		resetGlobals()
		files, err := cog.TypesFromSchema().
			CUEModule(filepath.Join(dir, main.Path), cog.CUEImports(imports), cog.PreserveExternalReferences()).
			Golang(cog.GoConfig{}).
			Run(context.Background())
		if err != nil {
			out["run.status"] = "fail"
			return nil
		}
		out["run.status"] = "ok"
		for _, f := range files {
			out["file:"+f.RelativePath] = Sha(f.Data)
		}
		return nil
	})
	if ex.Panic != nil {
		out = map[string]string{"run.status": "fail"}
	}
	return out, ex
}

func init() {
	opts := RunOpts{Generate: true, Inspect: true}
	Register(&Property{
		ID: "C03",
		Setup: func(ctx *Ctx) {
			ctx.Corpus = LoadCorpus(ctx.RepoRoot)
		},
		RunCase: func(ctx *Ctx, seed uint64, idx int) *CaseResult {
			r := NewRand(seed)
			maxLangs := 3
			if r.Chance(1, 6) {
				maxLangs = 7
			}
			w := GenWorkload(r, ctx.Corpus, maxLangs, GenOpts{NoAllOf: r.Chance(2, 3)})
			dir := filepath.Join(ctx.Dirs.Root, "case")
			if idx%8 == 5 {
				w = GenComposeWorkload(r)
			} else if idx%8 == 6 {
				w = GenListOfUnionsWorkload(r)
			} else if idx%16 == 7 {
				w = GenMergeWorkload(r)
			} else if idx%16 == 15 {
				w = GenCueImportsWorkload(r)
			} else if idx%16 == 3 {
				w = GenFactoriesWorkload(r)
			} else if idx%16 == 11 {
				w = GenSharedOptionWorkload(r)
			} else if idx%16 == 9 {
				w = GenFoldedDefaultsWorkload(r)
			} else if idx%16 == 1 {
				w = GenAliasedMappingWorkload(r)
			} else if r.Chance(2, 3) {
				EnrichWorkload(r.Fork("enrich"), w, dir)
			}
			if sr := r.Side("final-passes"); sr.Chance(1, 6) {
				AddFinalPasses(sr, w)
			}
			res := &CaseResult{}
			base := simrt.Schedule{Default: simrt.Canonical}
			s0, o0, e0 := execWorkload(dir, w, base, nil, opts)
			ctx.Account(e0)
			res.Execs++
			if ctx.Opt["trace"] != "" && o0 != nil {
				fmt.Fprintf(os.Stderr, "trace: case %d %s status=%v run=%s load=%s\n", idx, w.Name, s0["run.status"], truncate(o0.ErrRun, 300), truncate(o0.ErrLoad, 300))
			}
			alts := []simrt.Schedule{
				{Default: simrt.Reverse, Seed: r.U64()},
				{Default: simrt.Shuffle, Seed: r.U64()},
			}
			switch r.Intn(3) {
			case 0:
				alts = append(alts, simrt.Schedule{Default: simrt.Rotate, Seed: r.U64()})
			case 1:
				alts = append(alts, simrt.Schedule{Default: simrt.Canonical, Seed: r.U64(), SubsetMod: uint64(4 + r.Intn(8)), SubsetPolicy: simrt.Reverse})
			default:
				alts = append(alts, simrt.Schedule{Default: simrt.Shuffle, Seed: r.U64(), KeyOrder: Shuffled(r, allLanguages)})
			}
			sample := map[string]any{"workload": w.Name, "schedules": []string{}, "status": s0["run.status"], "files": len(e0.Run.Sites)}
			var scheds []string
			for _, alt := range alts {
				s1, _, e1 := execWorkload(dir, w, alt, nil, opts)
				ctx.Account(e1)
				res.Execs++
				nc := nonCanonSites(e1)
				scheds = append(scheds, fmt.Sprintf("%s(%d sites perturbed)", alt.Default, len(nc)))
				if len(nc) > 0 {
					res.Nontrivial = append(res.Nontrivial, ShaStr(w.Fingerprint()+fmt.Sprint(e1.LogHash)))
					ctx.Stats.SchedPrints[fmt.Sprint(e1.LogHash)] = struct{}{}
				}
				d := DiffSummaries(s0, s1)
				if len(d) == 0 {
					continue
				}
				comp := componentClass(d)
				// minimise: which sites are responsible?
				budget := 80
				test := func(sites []string) bool {
					c, _, _, _ := c03Compare(dir, w, schedFor(alt, sites, func(s string) simrt.Policy { return policyOf(alt, s) }), opts)
					return c == comp
				}
				sites := nc
				if test(sites) {
					sites = ddmin(sites, test, &budget)
				}
				minAlt := schedFor(alt, sites, func(s string) simrt.Policy { return policyOf(alt, s) })
				// prefer plain reversal when it shows the same thing
				rev := schedFor(alt, sites, func(string) simrt.Policy { return simrt.Reverse })
				if c, _, _, _ := c03Compare(dir, w, rev, opts); c == comp {
					minAlt = rev
				}
				key := c03Key(comp, sites)
				wb := 40
				wmin := shrinkWorkload(w, func(c *Workload) bool {
					cc, _, _, _ := c03Compare(dir, c, minAlt, opts)
					return cc == comp
				}, &wb)
				_, dd, _, _ := c03Compare(dir, wmin, minAlt, opts)
				res.Violations = append(res.Violations, Violation{
					Key:     key,
					What:    fmt.Sprintf("output component %q depends on the iteration order of %v (workload %s); differing: %v", comp, sites, wmin.Name, firstN(dd, 6)),
					Payload: c03Payload{W: wmin, Alt: minAlt, Mode: "schedule", Component: comp, Differs: firstN(dd, 20)},
				})
				break
			}
			// determinism self-check of the simulator: same schedule, same log
			if idx%20 == 0 {
				alt := alts[0]
				sa, oa, ea := execWorkload(dir, w, alt, nil, opts)
				sb, ob, eb := execWorkload(dir, w, alt, nil, opts)
				if d := ctx.Opt["dumpdir"]; d != "" && len(DiffSummaries(sa, sb)) != 0 && oa != nil && ob != nil {
					_ = os.WriteFile(filepath.Join(d, fmt.Sprintf("c%d-a.json", idx)), []byte(oa.IRLoad), 0o644)
					_ = os.WriteFile(filepath.Join(d, fmt.Sprintf("c%d-b.json", idx)), []byte(ob.IRLoad), 0o644)
				}
				ctx.Stats.Redo++
				if ea.LogHash != eb.LogHash || len(DiffSummaries(sa, sb)) != 0 {
					ctx.Stats.RedoBad++
					fmt.Fprintf(os.Stderr, "determinism mismatch: case %d workload %s: log %x vs %x diff %v\n", idx, w.Name, ea.LogHash, eb.LogHash, DiffSummaries(sa, sb))
				}
			}
			// the library facade on the scenario that has CUE libraries
			if strings.HasPrefix(w.Name, "cue-imports") {
				base := simrt.Schedule{Default: simrt.Canonical}
				f0, x0 := facadeFiles(dir, w, base)
				ctx.Account(x0)
				res.Execs++
				for _, alt := range []simrt.Schedule{{Default: simrt.Reverse, Seed: r.U64()}, {Default: simrt.Shuffle, Seed: r.U64()}} {
					f1, x1 := facadeFiles(dir, w, alt)
					ctx.Account(x1)
					res.Execs++
					if d := DiffSummaries(f0, f1); len(d) > 0 {
						res.Violations = append(res.Violations, Violation{
							Key:     "facade|" + componentClass(d),
							What:    fmt.Sprintf("cog.TypesFromSchema().CUEModule(..., CUEImports(map)) gives different files under schedule %s (workload %s): %v", alt.Default, w.Name, firstN(d, 6)),
							Payload: c03Payload{W: w, Alt: alt, Mode: "facade", Component: componentClass(d), Differs: firstN(d, 20)},
						})
						break
					}
				}
			}
			// history variant: the same Pipeline value runs twice
			if idx%5 == 0 {
				comp, d, ex := rerunSamePipeline(dir, w)
				ctx.Account(ex)
				res.Execs++
				if comp != "" {
					res.Violations = append(res.Violations, Violation{
						Key:     "rerun|" + comp,
						What:    fmt.Sprintf("running the same Pipeline value twice gives different %s (workload %s): %v", comp, w.Name, firstN(d, 6)),
						Payload: c03Payload{W: w, Mode: "rerun", Component: comp, Differs: firstN(d, 20)},
					})
				}
			}
			sample["schedules"] = scheds
			res.Sample = sample
			_ = os.RemoveAll(dir)
			return res
		},
		Replay: func(ctx *Ctx, payload json.RawMessage) (string, string) {
			var p c03Payload
			must(json.Unmarshal(payload, &p))
			dir := filepath.Join(ctx.Dirs.Root, "replay")
			defer os.RemoveAll(dir)
			if p.Mode == "facade" {
				f0, _ := facadeFiles(dir, p.W, simrt.Schedule{Default: simrt.Canonical})
				f1, _ := facadeFiles(dir, p.W, p.Alt)
				if d := DiffSummaries(f0, f1); len(d) > 0 {
					return "facade|" + componentClass(d), fmt.Sprint(firstN(d, 6))
				}
				return "", ""
			}
			if p.Mode == "rerun" {
				comp, d, _ := rerunSamePipeline(dir, p.W)
				if comp == "" {
					return "", ""
				}
				return "rerun|" + comp, fmt.Sprint(firstN(d, 6))
			}
			comp, d, _, e1 := c03Compare(dir, p.W, p.Alt, opts)
			if comp == "" {
				return "", ""
			}
			var sites []string
			for s := range p.Alt.Sites {
				sites = append(sites, s)
			}
			sort.Strings(sites)
			_ = e1
			return c03Key(comp, sites), fmt.Sprintf("component %s differs between canonical order and the recorded schedule: %v", comp, firstN(d, 6))
		},
	})
}

func firstN(s []string, n int) []string {
	if len(s) <= n {
		return s
	}
	return append(append([]string(nil), s[:n]...), fmt.Sprintf("... (%d more)", len(s)-n))
}
