// Package zzverif is the simulation harness. It is copied into the instrumented
// scratch copy of grafana/cog as internal/zzverif because it has to import cog's
// internal packages; it is never part of /repo.
package zzverif

import (
	"crypto/sha256"
	"encoding/hex"
	"encoding/json"
	"fmt"
	"os"
	"regexp"
	"runtime"
	"runtime/debug"
	"sort"
	"strings"
	"sync/atomic"
	"time"

	"verif.local/simrt"
)

// PanicInfo describes a recovered panic of the system under test.
type PanicInfo struct {
	Class string `json:"class"` // nil-deref, index-out-of-range, type-assertion, hang, stack-overflow, ...
	Value string `json:"value"`
	Frame string `json:"frame"` // innermost cog function (not line) on the stack
	Stack string `json:"stack,omitempty"`
}

// Key identifies a crash: class + innermost cog function for panics; class +
// package for runaway recursion and hangs (which member of a recursion cycle
// is on top when the budget runs out is an accident, and cyclic inputs make
// most recursive formatters of a package overflow alike).
func (p *PanicInfo) Key() string {
	if p.Class == "stack-overflow" || p.Class == "hang" {
		f := p.Frame
		// the compiler package holds some forty unrelated passes: there the pass (receiver
		// type) is the site; elsewhere the package is
		if m := compilerPass.FindStringSubmatch(f); m != nil && p.Class == "stack-overflow" {
			return p.Class + "@" + m[1]
		}
		if i := strings.LastIndex(f, "/"); i >= 0 {
			if j := strings.Index(f[i:], "."); j >= 0 {
				f = f[:i+j]
			}
		}
		return p.Class + "@" + f
	}
	if p.Class == "type-assertion" {
		// which dynamic type reaches the assertion is part of the identity
		if m := assertedType.FindStringSubmatch(p.Value); m != nil {
			return p.Class + "@" + p.Frame + "[" + m[1] + "]"
		}
	}
	return p.Class + "@" + p.Frame
}

var compilerPass = regexp.MustCompile(`^(github\.com/grafana/cog/internal/ast/compiler\.\(\*?[A-Za-z]+\))\.`)

var assertedType = regexp.MustCompile(`interface \{\} is ([^,]+),`)

// Exec is the outcome of one simulated execution.
type Exec struct {
	Err      error
	Panic    *PanicInfo
	Ticks    uint64
	LogHash  uint64
	Run      *simrt.Run
	WallNs   int64
}

func (e *Exec) ErrString() string {
	if e.Err == nil {
		return ""
	}
	return e.Err.Error()
}

var frameRe = regexp.MustCompile(`(?m)^(github\.com/grafana/cog[^\s(]*(?:\([^)]*\))?[^\s(]*)\(`)
var genericArgs = regexp.MustCompile(`\[[^\]]*\]`)

var kindAccessor = regexp.MustCompile(`^github\.com/grafana/cog/internal/ast\.\(?\*?Type\)?\.As[A-Z][A-Za-z]*\(`)

// innermostCogFrame extracts the first cog function below the panic machinery.
func innermostCogFrame(stack string) string {
	lines := strings.Split(stack, "\n")
	for _, l := range lines {
		if !strings.HasPrefix(l, "github.com/grafana/cog") {
			continue
		}
		if strings.Contains(l, "/internal/zzverif") {
			continue
		}
		// the kind accessors of ast.Type (AsStruct, AsScalar, ...) only dereference: the
		// site of a crash in one of them is the caller that did not check the kind
		if kindAccessor.MatchString(l) {
			continue
		}
		// function line looks like: pkg/path.(*T).Method(args...)
		i := strings.LastIndex(l, "(")
		fn := l
		if i > 0 {
			fn = l[:i]
		}
		fn = genericArgs.ReplaceAllString(fn, "")
		fn = strings.TrimSuffix(fn, ".DeepCopy__orig")
		// closures: keep the enclosing function
		if j := strings.Index(fn, ".func"); j > 0 {
			fn = fn[:j]
		}
		return fn
	}
	return "?"
}

func classify(v any) string {
	switch x := v.(type) {
	case simrt.Hang:
		return "hang"
	case simrt.Overflow:
		return "stack-overflow"
	case runtime.Error:
		s := x.Error()
		switch {
		case strings.Contains(s, "nil pointer dereference"):
			return "nil-deref"
		case strings.Contains(s, "index out of range"), strings.Contains(s, "slice bounds out of range"):
			return "index-out-of-range"
		case strings.Contains(s, "interface conversion"):
			return "type-assertion"
		case strings.Contains(s, "assignment to entry in nil map"):
			return "nil-map-write"
		case strings.Contains(s, "makeslice"):
			return "makeslice"
		case strings.Contains(s, "divide by zero"):
			return "divide-by-zero"
		}
		return "runtime-error"
	}
	return "panic"
}

// ExecStart is the wall-clock start (unix nanos) of the execution in progress,
// 0 when none is; CurrentDesc describes what is being executed. Both are read
// by the worker's wall-clock watchdog.
var ExecStart atomic.Int64
var CurrentDesc atomic.Value

// Simulate runs f as one simulated execution under the given schedule and
// fault plan. Panics of the system under test are recovered and classified.
func Simulate(sched simrt.Schedule, fsPlan *simrt.FSPlan, maxTicks uint64, f func() error) (ex *Exec) {
	r := &simrt.Run{Sched: sched, FS: fsPlan, MaxTicks: maxTicks}
	ex = &Exec{Run: r}
	start := time.Now()
	simrt.ResetCopyDepth()
	ExecStart.Store(start.UnixNano())
	simrt.Begin(r)
	defer func() {
		simrt.End()
		ExecStart.Store(0)
		ex.Ticks = r.Ticks
		ex.LogHash = r.LogHash
		ex.WallNs = time.Since(start).Nanoseconds()
		if v := recover(); v != nil {
			stack := string(debug.Stack())
			// drop the frames of the recover machinery itself
			if i := strings.Index(stack, "panic("); i >= 0 {
				stack = stack[i:]
			}
			ex.Panic = &PanicInfo{Class: classify(v), Value: fmt.Sprint(v), Frame: innermostCogFrame(stack), Stack: truncate(stack, 6000)}
			if o, ok := r.Aborted.(simrt.Overflow); ok {
				ex.Panic.Class, ex.Panic.Frame = "stack-overflow", innermostCogFrame(o.Func+"(")
			}
			if h, ok := r.Aborted.(simrt.Hang); ok {
				ex.Panic.Class, ex.Panic.Frame = "hang", innermostCogFrame(h.Func+"(")
			}
		} else if r.Aborted != nil {
			// the budget panic was swallowed on the way up (text/template
			// converts panics of template functions into errors)
			frame := "(swallowed)"
			if o, ok := r.Aborted.(simrt.Overflow); ok {
				frame = innermostCogFrame(o.Func + "(")
			}
			if h, ok := r.Aborted.(simrt.Hang); ok {
				frame = innermostCogFrame(h.Func + "(")
			}
			ex.Panic = &PanicInfo{Class: classify(r.Aborted), Value: r.Aborted.Error(), Frame: frame}
		}
	}()
	ex.Err = f()
	return ex
}

func truncate(s string, n int) string {
	if len(s) <= n {
		return s
	}
	return s[:n] + "\n...[truncated]"
}

// ---------------------------------------------------------------- hashing helpers

func Sha(b []byte) string {
	h := sha256.Sum256(b)
	return hex.EncodeToString(h[:8])
}

func ShaStr(s string) string { return Sha([]byte(s)) }

// JSONHash marshals v (encoding/json sorts map keys) and hashes it. A value
// that cannot be marshalled hashes to its error text.
func JSONHash(v any) string {
	b, err := json.Marshal(v)
	if err != nil {
		return "marshal-error:" + err.Error()
	}
	return Sha(b)
}

func JSONString(v any) string {
	b, err := json.Marshal(v)
	if err != nil {
		return "marshal-error:" + err.Error()
	}
	return string(b)
}

func SortedKeys[V any](m map[string]V) []string {
	ks := make([]string, 0, len(m))
	for k := range m {
		ks = append(ks, k)
	}
	sort.Strings(ks)
	return ks
}

// ---------------------------------------------------------------- PRNG

// Rand is a small splitmix64 stream; every generator takes one seeded from
// (VERIF_SEED, property, case index) so that a case is a pure function of those.
type Rand struct{ s uint64 }

func NewRand(seed uint64) *Rand { return &Rand{s: seed} }

func (r *Rand) U64() uint64 {
	r.s += 0x9e3779b97f4a7c15
	z := r.s
	z = (z ^ (z >> 30)) * 0xbf58476d1ce4e5b9
	z = (z ^ (z >> 27)) * 0x94d049bb133111eb
	return z ^ (z >> 31)
}

func (r *Rand) Intn(n int) int {
	if n <= 0 {
		return 0
	}
	return int(r.U64() % uint64(n))
}

func (r *Rand) Bool() bool { return r.U64()&1 == 1 }

// Chance returns true with probability num/den.
func (r *Rand) Chance(num, den int) bool { return r.Intn(den) < num }

func (r *Rand) Fork(label string) *Rand { return NewRand(simrt.Hash64(r.U64(), label)) }

// Side derives an independent stream without advancing this one.
func (r *Rand) Side(label string) *Rand { return NewRand(simrt.Hash64(r.s, label)) }

func Pick[T any](r *Rand, xs []T) T { return xs[r.Intn(len(xs))] }

func Shuffled[T any](r *Rand, xs []T) []T {
	out := append([]T(nil), xs...)
	for i := len(out) - 1; i > 0; i-- {
		j := r.Intn(i + 1)
		out[i], out[j] = out[j], out[i]
	}
	return out
}

// CaseSeed derives the seed of case idx of a property from VERIF_SEED.
func CaseSeed(verifSeed uint64, prop string, idx int) uint64 {
	return simrt.Mix(simrt.Hash64(verifSeed, prop) + uint64(idx)*0x9e3779b97f4a7c15)
}

// ---------------------------------------------------------------- misc

func must(err error) {
	if err != nil {
		fmt.Fprintln(os.Stderr, "harness: internal error:", err)
		os.Exit(2)
	}
}
