package zzverif

import (
	"encoding/json"
	"fmt"
	"strings"

	"github.com/grafana/cog/internal/ast"
)

// BuilderView lists what a builder/option rule can target.
type BuilderView struct {
	Pkg     string
	Name    string
	Object  string
	Options []OptionView
	Fields  []string // field names of the built struct (for paths)
	// RefFields: field name -> name of the object of the same package it refers to
	RefFields map[string]string
	// ScalarFields: field name -> scalar kind, for plain (unconstrained, non-constant) scalar fields
	ScalarFields map[string]string
	Factories    int
	// DirectStruct: the built object's own type is a struct (not an alias resolved to one)
	DirectStruct bool
}

type OptionView struct {
	Name     string
	NArgs    int
	ArgKind  ast.Kind
	ArgNames []string
	Bool     bool
	// LastKind: kind of the last argument (after map_to_index the value is the second one)
	LastKind ast.Kind
	LastBool bool
}

func BuildersViewOf(schemas ast.Schemas, builders ast.Builders) []BuilderView {
	var out []BuilderView
	for _, b := range builders {
		bv := BuilderView{Pkg: b.Package, Name: b.Name, Object: b.For.Name, RefFields: map[string]string{}, ScalarFields: map[string]string{}}
		t := schemas.ResolveToType(b.For.Type)
		bv.DirectStruct = b.For.Type.Kind == ast.KindStruct
		if t.Kind == ast.KindStruct && t.Struct != nil {
			seenField := map[string]int{}
			for _, f := range t.Struct.Fields {
				seenField[f.Name]++
			}
			for _, f := range t.Struct.Fields {
				if seenField[f.Name] > 1 {
					continue // structs derived from unions may hold several fields of one name: ambiguous targets
				}
				bv.Fields = append(bv.Fields, f.Name)
				if f.Type.Kind == ast.KindRef && f.Type.Ref != nil && f.Type.Ref.ReferredPkg == b.Package {
					bv.RefFields[f.Name] = f.Type.Ref.ReferredType
				}
				if f.Type.Kind == ast.KindScalar && f.Type.Scalar != nil && f.Type.Scalar.Value == nil && len(f.Type.Scalar.Constraints) == 0 && len(f.Type.Hints) == 0 {
					switch f.Type.Scalar.ScalarKind {
					case ast.KindString, ast.KindInt64, ast.KindBool, ast.KindFloat64:
						bv.ScalarFields[f.Name] = string(f.Type.Scalar.ScalarKind)
					}
				}
			}
		}
		bv.Factories = len(b.Factories)
		for _, o := range b.Options {
			ov := OptionView{Name: o.Name, NArgs: len(o.Args)}
			for _, a := range o.Args {
				ov.ArgNames = append(ov.ArgNames, a.Name)
			}
			if len(o.Args) > 0 {
				last := o.Args[len(o.Args)-1].Type
				ov.LastKind = last.Kind
				ov.LastBool = last.Kind == ast.KindScalar && last.Scalar != nil && last.Scalar.ScalarKind == ast.KindBool
				ov.ArgKind = o.Args[0].Type.Kind
				ov.Bool = o.Args[0].Type.Kind == ast.KindScalar && o.Args[0].Type.Scalar != nil && o.Args[0].Type.Scalar.ScalarKind == ast.KindBool
			}
			bv.Options = append(bv.Options, ov)
		}
		out = append(out, bv)
	}
	return out
}

// RuleSpec is one builder or option rule as plain data.
type RuleSpec struct {
	Scope string `json:"scope"` // builder | option
	Kind  string `json:"kind"`
	// selector
	SelKind string   `json:"sel_kind"` // by_object by_name by_variant generated_from_disjunction | by_name by_builder by_names_object by_names_builder
	SelA    string   `json:"sel_a,omitempty"`
	SelOpts []string `json:"sel_opts,omitempty"`
	// parameters
	As        string      `json:"as,omitempty"`
	Names     []string    `json:"names,omitempty"`
	Source    string      `json:"source,omitempty"`
	Path      string      `json:"path,omitempty"`
	TrueAs    string      `json:"true_as,omitempty"`
	FalseAs   string      `json:"false_as,omitempty"`
	Index     int         `json:"index,omitempty"`
	Value     any         `json:"value,omitempty"`
	Type      *TypeSpec   `json:"type,omitempty"`
	Comments  []string    `json:"comments,omitempty"`
	Props     []FieldSpec `json:"props,omitempty"`
	Map       [][2]string `json:"map,omitempty"`
	Flag      bool        `json:"flag,omitempty"`
	Method    string      `json:"method,omitempty"`
	FieldName string      `json:"field_name,omitempty"`
	// Lang is the language tag of the veneer file the rule is written to in the
	// rewriter-order check ("all" or the language under test)
	Lang string `json:"lang,omitempty"`
	// Misconfigured: the generator knows the parameters do not fit together
	// (merge_into whose source is not the type found under the path)
	Misconfigured bool `json:"misconfigured,omitempty"`
	// PathDirect: every object the path walks through (the destination's included) is a
	// struct as it stands, not an alias: what Builder.MakePath follows by its one-hop resolution
	PathDirect bool `json:"path_direct,omitempty"`
}

var builderRuleKinds = []string{"omit", "rename", "merge_into", "compose", "properties", "duplicate", "initialize", "promote_options_to_constructor", "add_option", "add_factory"}
var optionRuleKinds = []string{"omit", "rename", "rename_arguments", "unfold_boolean", "struct_fields_as_arguments", "struct_fields_as_options", "array_to_append", "map_to_index", "disjunction_as_options", "duplicate", "add_assignment", "add_comments"}

func pickBuilder(r *Rand, bvs []BuilderView, pkg string) *BuilderView {
	var c []*BuilderView
	for i := range bvs {
		if bvs[i].Pkg == pkg {
			c = append(c, &bvs[i])
		}
	}
	if len(c) == 0 {
		return nil
	}
	return Pick(r, c)
}

func fuzzName(r *Rand, s string) string {
	switch drawMode(r) {
	case tCase:
		return caseVariant(r, s)
	case tAbsent:
		return s + "Missing"
	}
	return s
}

// GenRuleSpec draws a rule of the given scope/kind for package pkg.
func GenRuleSpec(r *Rand, bvs []BuilderView, pkg string, scope string, kind string) RuleSpec {
	rs := RuleSpec{Scope: scope, Kind: kind}
	b := pickBuilder(r, bvs, pkg)
	if b == nil {
		b = &BuilderView{Pkg: pkg, Name: "Nothing", Object: "Nothing"}
	}
	pickOpt := func(pred func(OptionView) bool) OptionView {
		var c []OptionView
		for _, o := range b.Options {
			if pred == nil || pred(o) {
				c = append(c, o)
			}
		}
		if len(c) == 0 {
			if len(b.Options) > 0 {
				return Pick(r, b.Options)
			}
			return OptionView{Name: "nothing"}
		}
		return Pick(r, c)
	}
	if scope == "builder" {
		switch r.Intn(10) {
		case 0:
			rs.SelKind, rs.SelA = "by_variant", Pick(r, []string{"panelcfg", "dataquery"})
		case 1:
			rs.SelKind = "generated_from_disjunction"
		case 2, 3:
			rs.SelKind, rs.SelA = "by_name", fuzzName(r, b.Name)
		default:
			rs.SelKind, rs.SelA = "by_object", fuzzName(r, b.Object)
		}
		switch kind {
		case "rename":
			rs.As = Pick(r, []string{"Renamed", "Other", b.Name + "2"})
		case "merge_into":
			rs.SelA = fuzzName(r, b.Name) // destination
			src := pickBuilder(r, bvs, pkg)
			rs.Source = "Nothing"
			if src != nil {
				rs.Source = src.Name
			}
			rs.Path = "nothing"
			if len(b.Fields) > 0 {
				rs.Path = Pick(r, b.Fields)
			}
			rs.Misconfigured = true
			// a consistent configuration: the source builds the object found under the
			// path, which walks 1-4 reference fields deep (fieldConfig.defaults.custom)
			if len(b.RefFields) > 0 && r.Chance(5, 6) {
				find := func(obj string) *BuilderView {
					for i := range bvs {
						// whatever its name: a renamed builder still builds its object
						if bvs[i].Pkg == pkg && bvs[i].Object == obj {
							return &bvs[i]
						}
					}
					return nil
				}
				cur := b
				var segs []string
				depth := Pick(r, []int{1, 2, 3, 3, 3, 4, 5})
				visited := map[string]bool{b.Object: true}
				direct := b.DirectStruct
				for len(segs) < depth && len(cur.RefFields) > 0 {
					f := Pick(r, SortedKeys(cur.RefFields))
					next := find(cur.RefFields[f])
					if next == nil || visited[next.Object] {
						break
					}
					visited[next.Object] = true
					segs = append(segs, f)
					cur = next
					direct = direct && next.DirectStruct
				}
				if len(segs) > 0 {
					rs.SelA, rs.Source, rs.Path, rs.Misconfigured, rs.PathDirect = b.Name, cur.Name, strings.Join(segs, "."), false, direct
				}
			}
			// a destination name that matches several builders case-insensitively
			// cannot be consistent for all of them
			nDest := 0
			for i := range bvs {
				if strings.EqualFold(bvs[i].Pkg, pkg) && strings.EqualFold(bvs[i].Name, rs.SelA) {
					nDest++
				}
			}
			if nDest > 1 {
				rs.Misconfigured = true
			}
			// the same goes for a source name several builders answer to (after a
			// rename that gave one name to many)
			// (the source is looked up by exact name: builders whose names only fold onto it
			// are bystanders)
			nSrc := 0
			for i := range bvs {
				if bvs[i].Name == rs.Source {
					nSrc++
				}
			}
			if nSrc > 1 {
				rs.Misconfigured = true
			}
			if r.Chance(1, 3) {
				rs.Names = []string{pickOpt(nil).Name}
			}
			if r.Chance(1, 3) {
				rs.Map = [][2]string{{pickOpt(nil).Name, "renamedOpt"}}
				if r.Bool() {
					// renames that interact: a chain, and two keys differing by case only
					a, b2 := pickOpt(nil).Name, pickOpt(nil).Name
					rs.Map = [][2]string{{a, b2}, {b2, "legacy" + b2}, {strings.ToUpper(a), "upper" + a}}
				}
			}
		case "compose":
			rs.SelKind, rs.SelA = "by_variant", Pick(r, []string{"panelcfg", "dataquery"})
			rs.Source = pkg + "." + b.Object
			if len(bvs) > 0 && r.Chance(1, 2) {
				o := Pick(r, bvs)
				rs.Source = o.Pkg + "." + o.Object
			}
			rs.FieldName = "type"
			if len(b.Fields) > 0 && r.Chance(1, 2) {
				rs.FieldName = Pick(r, b.Fields)
			}
			for _, o := range bvs {
				if r.Chance(1, 2) && len(b.Fields) > 0 {
					rs.Map = append(rs.Map, [2]string{o.Object, Pick(r, b.Fields)})
				}
				if len(rs.Map) >= 3 {
					break
				}
			}
			rs.Flag = r.Bool()
			if r.Chance(1, 3) {
				rs.As = "Composed"
			}
		case "properties":
			rs.Props = []FieldSpec{{Name: "someBuilderProp", T: &TypeSpec{K: "string"}}}
			if r.Bool() {
				rs.Props = append(rs.Props, FieldSpec{Name: "counter", T: &TypeSpec{K: "int64"}})
			}
		case "duplicate":
			rs.As = Pick(r, []string{"Dup", b.Name + "Copy"})
			if r.Chance(1, 2) {
				rs.Names = []string{pickOpt(nil).Name}
			}
		case "initialize":
			rs.Path = "nothing"
			if len(b.Fields) > 0 {
				rs.Path = Pick(r, b.Fields)
			}
			if r.Chance(1, 8) {
				rs.Path += ".deeper"
			}
			rs.Value = Pick(r, []any{"init", 1, true})
		case "promote_options_to_constructor":
			rs.Names = []string{fuzzName(r, pickOpt(nil).Name)}
			if r.Chance(1, 3) {
				rs.Names = append(rs.Names, pickOpt(nil).Name)
			}
		case "add_option":
			rs.As = Pick(r, []string{"addedOption", "withThing"})
			rs.Path = "nothing"
			if len(b.Fields) > 0 {
				rs.Path = Pick(r, b.Fields)
			}
			rs.Type = &TypeSpec{K: Pick(r, []string{"string", "int64", "bool"})}
			rs.Method = Pick(r, []string{"direct", "direct", "append", "index"})
			rs.Flag = r.Chance(1, 3) // constant instead of argument
			if !rs.Flag {
				// an argument of the type of the field it is assigned to
				if len(b.ScalarFields) > 0 {
					f := Pick(r, SortedKeys(b.ScalarFields))
					rs.Path, rs.Type, rs.Method = f, &TypeSpec{K: b.ScalarFields[f]}, "direct"
				} else {
					rs.Flag = true
				}
			}
			rs.Comments = maybeComments(r)
		case "add_factory":
			rs.As = Pick(r, []string{"Default", "WithPreset"})
			rs.Names = []string{pickOpt(nil).Name}
			rs.Type = &TypeSpec{K: "string"}
			rs.Flag = r.Bool()
			if r.Chance(1, 3) {
				rs.Method = "nested-factory" // the option call's parameter is itself a factory call
				rs.Source = b.Name
			}
		}
		return rs
	}
	// option rules
	o := pickOpt(nil)
	switch kind {
	case "unfold_boolean":
		o = pickOpt(func(o OptionView) bool { return o.Bool })
	case "struct_fields_as_arguments", "struct_fields_as_options":
		o = pickOpt(func(o OptionView) bool { return o.ArgKind == ast.KindRef || o.ArgKind == ast.KindStruct })
	case "array_to_append":
		o = pickOpt(func(o OptionView) bool { return o.ArgKind == ast.KindArray })
	case "map_to_index":
		o = pickOpt(func(o OptionView) bool { return o.ArgKind == ast.KindMap })
	case "disjunction_as_options":
		o = pickOpt(func(o OptionView) bool { return o.ArgKind == ast.KindDisjunction || o.ArgKind == ast.KindRef })
	}
	optName := fuzzName(r, o.Name)
	switch r.Intn(6) {
	case 0:
		rs.SelKind, rs.SelA = "by_builder", fuzzName(r, b.Name)+"."+optName
	case 1:
		rs.SelKind, rs.SelA, rs.SelOpts = "by_names_object", fuzzName(r, b.Object), []string{optName, pickOpt(nil).Name}
	case 2:
		rs.SelKind, rs.SelA, rs.SelOpts = "by_names_builder", fuzzName(r, b.Name), []string{optName}
	default:
		rs.SelKind, rs.SelA = "by_name", fuzzName(r, b.Object)+"."+optName
	}
	switch kind {
	case "rename":
		rs.As = Pick(r, []string{"renamedOption", "x"})
	case "rename_arguments":
		n := o.NArgs
		if r.Chance(1, 5) {
			n++
		}
		for i := 0; i < n; i++ {
			rs.Names = append(rs.Names, fmt.Sprintf("arg%d", i))
		}
	case "unfold_boolean":
		rs.TrueAs, rs.FalseAs = "enable"+o.Name, "disable"+o.Name
	case "struct_fields_as_arguments", "struct_fields_as_options":
		if r.Chance(1, 3) {
			rs.Names = []string{Pick(r, fieldNames)}
		}
	case "disjunction_as_options":
		rs.Index = 0
		if r.Chance(1, 10) {
			rs.Index = 1
		}
	case "duplicate":
		rs.As = Pick(r, []string{"dupOption", o.Name + "Again"})
	case "add_assignment":
		rs.Path = "nothing"
		if len(b.Fields) > 0 {
			rs.Path = Pick(r, b.Fields)
		}
		rs.Value = Pick(r, []any{"assigned", 2, false})
		rs.Method = Pick(r, []string{"direct", "append"})
	case "add_comments":
		rs.Comments = []string{"extra comment"}
	}
	return rs
}

func (rs RuleSpec) selectorYAML(ind string) string {
	switch rs.SelKind {
	case "by_object", "by_name", "by_variant", "by_builder":
		return fmt.Sprintf("%s%s: %s\n", ind, rs.SelKind, yq(rs.SelA))
	case "generated_from_disjunction":
		return ind + "generated_from_disjunction: true\n"
	case "by_names_object":
		return fmt.Sprintf("%sby_names:\n%s  object: %s\n%s  options: [%s]\n", ind, ind, yq(rs.SelA), ind, yqList(rs.SelOpts))
	case "by_names_builder":
		return fmt.Sprintf("%sby_names:\n%s  builder: %s\n%s  options: [%s]\n", ind, ind, yq(rs.SelA), ind, yqList(rs.SelOpts))
	}
	return ""
}

func jsonLit(v any) string {
	b, _ := json.Marshal(v)
	return string(b)
}

// YAML renders the rule as one list entry.
func (rs RuleSpec) YAML() string {
	var b strings.Builder
	p := func(f string, a ...any) { fmt.Fprintf(&b, f+"\n", a...) }
	sel := rs.selectorYAML("      ")
	if rs.Scope == "builder" {
		switch rs.Kind {
		case "omit":
			p("  - omit:\n%s", strings.TrimRight(sel, "\n"))
		case "rename":
			p("  - rename:\n%s      as: %s", sel, yq(rs.As))
		case "merge_into":
			p("  - merge_into:\n      destination: %s\n      source: %s\n      under_path: %s", yq(rs.SelA), yq(rs.Source), yq(rs.Path))
			if len(rs.Names) > 0 {
				p("      exclude_options: [%s]", yqList(rs.Names))
			}
			if len(rs.Map) > 0 {
				p("      rename_options:")
				seen := map[string]bool{}
				for _, kv := range rs.Map {
					if seen[kv[0]] {
						continue // a YAML mapping cannot hold the same key twice
					}
					seen[kv[0]] = true
					p("        %s: %s", yq(kv[0]), yq(kv[1]))
				}
			}
		case "compose":
			p("  - compose:\n%s      source_builder_name: %s\n      plugin_discriminator_field: %s", sel, yq(rs.Source), yq(rs.FieldName))
			if len(rs.Map) > 0 {
				p("      composition_map:")
				seen := map[string]bool{}
				for _, kv := range rs.Map {
					if seen[kv[0]] {
						continue
					}
					seen[kv[0]] = true
					p("        %s: %s", yq(kv[0]), yq(kv[1]))
				}
			}
			if rs.As != "" {
				p("      composed_builder_name: %s", yq(rs.As))
			}
			if rs.Flag {
				p("      preserve_original_builders: true")
			}
		case "properties":
			p("  - properties:\n%s      set:", sel)
			for _, f := range rs.Props {
				b.WriteString(f.yaml("        "))
			}
		case "duplicate":
			p("  - duplicate:\n%s      as: %s", sel, yq(rs.As))
			if len(rs.Names) > 0 {
				p("      exclude_options: [%s]", yqList(rs.Names))
			}
		case "initialize":
			p("  - initialize:\n%s      set:\n        - property: %s\n          value: %s", sel, yq(rs.Path), jsonLit(rs.Value))
		case "promote_options_to_constructor":
			p("  - promote_options_to_constructor:\n%s      options: [%s]", sel, yqList(rs.Names))
		case "add_option":
			p("  - add_option:\n%s      option:\n        name: %s", sel, yq(rs.As))
			if len(rs.Comments) > 0 {
				p("        comments: [%s]", yqList(rs.Comments))
			}
			if !rs.Flag {
				p("        arguments:\n          - name: val\n            type:")
				b.WriteString(rs.Type.yaml("              "))
			}
			p("        assignments:\n          - path: %s\n            method: %s\n            value:", yq(rs.Path), rs.Method)
			if rs.Flag {
				p("              constant: %s", jsonLit("constant-value"))
			} else {
				p("              argument:\n                name: val\n                type:")
				b.WriteString(rs.Type.yaml("                  "))
			}
		case "add_factory":
			p("  - add_factory:\n%s      factory:\n        name: %s", sel, yq(rs.As))
			if rs.Flag {
				p("        arguments:\n          - name: preset\n            type:")
				b.WriteString(rs.Type.yaml("              "))
			}
			p("        options:")
			for _, n := range rs.Names {
				p("          - name: %s\n            parameters:", yq(n))
				if rs.Method == "nested-factory" {
					p("              - factory:\n                  ref: {package: somepkg, builder: %s, factory: Other}\n                  parameters:\n                    - constant:\n                        value: %s\n                        type:", yq(rs.Source), jsonLit("nested"))
					b.WriteString(rs.Type.yaml("                          "))
				} else if rs.Flag {
					p("              - argument:\n                  name: preset\n                  type:")
					b.WriteString(rs.Type.yaml("                    "))
				} else {
					p("              - constant:\n                  value: %s\n                  type:", jsonLit("preset"))
					b.WriteString(rs.Type.yaml("                    "))
				}
			}
		}
		return b.String()
	}
	switch rs.Kind {
	case "omit":
		p("  - omit:\n%s", strings.TrimRight(sel, "\n"))
	case "rename", "duplicate":
		p("  - %s:\n%s      as: %s", rs.Kind, sel, yq(rs.As))
	case "rename_arguments":
		p("  - rename_arguments:\n%s      as: [%s]", sel, yqList(rs.Names))
	case "unfold_boolean":
		p("  - unfold_boolean:\n%s      true_as: %s\n      false_as: %s", sel, yq(rs.TrueAs), yq(rs.FalseAs))
	case "struct_fields_as_arguments", "struct_fields_as_options":
		p("  - %s:\n%s", rs.Kind, strings.TrimRight(sel, "\n"))
		if len(rs.Names) > 0 {
			p("      fields: [%s]", yqList(rs.Names))
		}
	case "array_to_append", "map_to_index":
		p("  - %s:\n%s", rs.Kind, strings.TrimRight(sel, "\n"))
	case "disjunction_as_options":
		p("  - disjunction_as_options:\n%s      argument_index: %d", sel, rs.Index)
	case "add_assignment":
		p("  - add_assignment:\n%s      assignment:\n        path: %s\n        method: %s\n        value:\n          constant: %s", sel, yq(rs.Path), rs.Method, jsonLit(rs.Value))
	case "add_comments":
		p("  - add_comments:\n%s      comments: [%s]", sel, yqList(rs.Comments))
	}
	return b.String()
}

// VeneerFileYAML renders a veneers file for one package and language.
func VeneerFileYAML(language, pkg string, rules []RuleSpec) string {
	var b strings.Builder
	fmt.Fprintf(&b, "language: %s\npackage: %s\n", language, yq(pkg))
	var bs, os []RuleSpec
	for _, r := range rules {
		if r.Scope == "builder" {
			bs = append(bs, r)
		} else {
			os = append(os, r)
		}
	}
	if len(bs) > 0 {
		b.WriteString("builders:\n")
		for _, r := range bs {
			b.WriteString(r.YAML())
		}
	}
	if len(os) > 0 {
		b.WriteString("options:\n")
		for _, r := range os {
			b.WriteString(r.YAML())
		}
	}
	return b.String()
}
