package zzverif

import (
	"context"
	"encoding/json"
	"fmt"
	"os"
	"path/filepath"
	"regexp"
	"sort"
	"strings"

	"github.com/grafana/cog/internal/ast"
	"github.com/grafana/cog/internal/ast/compiler"
	"github.com/grafana/cog/internal/codegen"
	"github.com/grafana/cog/internal/languages"
	cogyaml "github.com/grafana/cog/internal/yaml"
	"verif.local/simrt"
)

// C07 — independence of sibling languages and of input order; merge = union or
// error; transformation chains never modify the schemas they were handed.

type c07Payload struct {
	Clause string         `json:"clause"` // a b c d e
	W      *Workload      `json:"workload"`
	W2     *Workload      `json:"workload2,omitempty"`
	Sched  simrt.Schedule `json:"schedule"`
	Lang   string         `json:"lang,omitempty"`
	Detail []string       `json:"detail,omitempty"`
}

func filesUnder(files map[string]string, prefix string) map[string]string {
	out := map[string]string{}
	for p, h := range files {
		if strings.HasPrefix(p, prefix) {
			out[p] = h
		}
	}
	return out
}

func diffFileMaps(a, b map[string]string) []string {
	var out []string
	for p, h := range a {
		if hb, ok := b[p]; !ok {
			out = append(out, "missing:"+p)
		} else if hb != h {
			out = append(out, "content:"+p)
		}
	}
	for p := range b {
		if _, ok := a[p]; !ok {
			out = append(out, "extra:"+p)
		}
	}
	sort.Strings(out)
	return out
}

func diffKinds(d []string) string {
	seen := map[string]bool{}
	for _, x := range d {
		k, _, _ := strings.Cut(x, ":")
		seen[k] = true
	}
	var ks []string
	for k := range seen {
		ks = append(ks, k)
	}
	sort.Strings(ks)
	return strings.Join(ks, "+")
}

var nonAlnum = regexp.MustCompile(`[^a-z0-9]`)

func normName(s string) string {
	s = strings.ToLower(s)
	if i := strings.Index(s, "."); i > 0 {
		s = s[:i]
	}
	return nonAlnum.ReplaceAllString(s, "")
}

// attributedTo tells whether path belongs to one of the packages.
func attributedTo(path string, pkgs map[string]bool) bool {
	for _, seg := range strings.Split(path, "/") {
		if pkgs[normName(seg)] {
			return true
		}
	}
	return false
}

var ctxBackground = context.Background()

// runFiles executes w and returns (files, ok).
func runFiles(ctx *Ctx, res *CaseResult, dir string, w *Workload, sched simrt.Schedule) (map[string]string, bool, *Exec) {
	_, obs, ex := execWorkload(dir, w, sched, nil, RunOpts{Generate: true})
	ctx.Account(ex)
	res.Execs++
	if ex.Panic != nil || obs == nil || obs.ErrRun != "" {
		return nil, false, ex
	}
	return obs.Files, true, ex
}

// ---- clause (a)

func c07Alone(ctx *Ctx, res *CaseResult, dir string, w *Workload, sched simrt.Schedule) (string, string, []string) {
	together, ok, _ := runFiles(ctx, res, dir, w, sched)
	if !ok {
		ctx.Count("a.together_failed", 1)
		return "", "", nil
	}
	for _, l := range w.Languages {
		solo := w.Clone()
		solo.Languages = []LangSpec{l}
		alone, ok, _ := runFiles(ctx, res, dir, solo, simrt.Schedule{Default: simrt.Canonical})
		if !ok {
			return "a|" + l.Name + "|alone-fails", l.Name, []string{"generating " + l.Name + " alone fails while it succeeds together with " + strings.Join(w.LangNames(), ",")}
		}
		prefix := "out/" + l.Name + "/"
		d := diffFileMaps(filesUnder(alone, prefix), filesUnder(together, prefix))
		ctx.Count("a.compared", 1)
		if len(d) > 0 {
			return "a|" + l.Name + "|" + diffKinds(d), l.Name, d
		}
	}
	return "", "", nil
}

// ---- clause (b)

func c07InputOrder(ctx *Ctx, res *CaseResult, dir string, w *Workload, perm []int) (string, []string) {
	base, ok, _ := runFiles(ctx, res, dir, w, simrt.Schedule{Default: simrt.Canonical})
	if !ok {
		ctx.Count("b.base_failed", 1)
		return "", nil
	}
	p := w.Clone()
	for i, j := range perm {
		p.Inputs[i] = w.Inputs[j]
	}
	got, ok, _ := runFiles(ctx, res, dir, p, simrt.Schedule{Default: simrt.Canonical})
	if !ok {
		return "b|status", []string{"the run fails once inputs are reordered"}
	}
	ctx.Count("b.compared", 1)
	if d := diffFileMaps(base, got); len(d) > 0 {
		return "b|" + diffKinds(d), d
	}
	return "", nil
}

// ---- clause (c)

func unrelatedInput(r *Rand, w *Workload) *Workload {
	c := w.Clone()
	// the extra package sorts before, between or after the others: state that leaks
	// from one package to the next only travels in one direction of that order
	name := Pick(r, []string{"zzunrelated", "aaunrelated", "a0unrelated", "mmunrelated"})
	in, _ := genPkgInput(r, c, name, Pick(r, []string{"jsonschema", "openapi"}), GenOpts{NoAllOf: true})
	pos := r.Intn(len(c.Inputs) + 1)
	c.Inputs = append(c.Inputs[:pos], append([]InputSpec{in}, c.Inputs[pos:]...)...)
	return c
}

// twinWorkloads: two packages that know nothing of each other but look alike - the same
// object and field names, each with its own veneers reaching into a nested nullable
// path (initialize of `options.mode`, struct_fields_as_options / _as_arguments on `options`,
// promote to constructor). State that a jenny keeps between builders and keys by name only
// travels from one to the other. Returns the run without and with the twin.
func twinWorkloads(r *Rand) (*Workload, *Workload, []string) {
	mk := func(pkg string) (*WPackage, string) {
		// the builder of Thing is the first or the last one of its package
		optsName := Pick(r, []string{"AOptions", "ZOptions"})
		p := &WPackage{Name: pkg, Objects: []WObject{
			{Name: optsName, T: &WType{K: "struct", Fields: []WField{{Name: "mode", T: &WType{K: "string"}}, {Name: "size", T: &WType{K: "int"}}}}},
			{Name: "Thing", T: &WType{K: "struct", Fields: []WField{{Name: "name", T: &WType{K: "string"}, Required: true}, {Name: "options", T: &WType{K: "ref", Ref: optsName}}}}},
		}}
		var y strings.Builder
		fmt.Fprintf(&y, "language: all\npackage: %s\n", pkg)
		var builders, options []string
		// one of the two kinds of veneer at least, so that each package reaches into `options`
		reach := r.Intn(3)
		if reach != 1 {
			builders = append(builders, "  - initialize:\n      by_object: Thing\n      set:\n        - property: options.mode\n          value: 'auto'\n")
		}
		if reach != 0 {
			options = append(options, "  - "+Pick(r, []string{"struct_fields_as_options", "struct_fields_as_options", "struct_fields_as_arguments"})+":\n      by_name: Thing.options\n")
		}
		if r.Chance(1, 3) {
			builders = append(builders, "  - promote_options_to_constructor:\n      by_object: Thing\n      options: [name]\n")
		}
		if len(builders) > 0 {
			y.WriteString("builders:\n" + strings.Join(builders, ""))
		}
		if len(options) > 0 {
			y.WriteString("options:\n" + strings.Join(options, ""))
		}
		return p, y.String()
	}
	main, twin := Pick(r, []string{"mmain", "zzmain", "aamain"}), Pick(r, []string{"aatwin", "zztwin", "nntwin"})
	w := &Workload{Files: map[string]string{}, Types: true, Builders: true, Converters: r.Bool()}
	pm, ym := mk(main)
	w.Files["in/"+main+"/schema.json"] = pm.RenderJSONSchemaEntry("Thing")
	w.Files["cfg/veneers/"+main+".yaml"] = ym
	w.Inputs = []InputSpec{{Kind: "jsonschema", Path: "in/" + main + "/schema.json", Package: main}}
	w.VeneerDirs = []string{"cfg/veneers"}
	w.Languages = GenLanguages(r, 1, 3)
	if r.Bool() {
		w.Languages = append(w.Languages, LangSpec{Name: "go", Flags: map[string]string{}})
		seen := map[string]bool{}
		var ls []LangSpec
		for _, l := range w.Languages {
			if !seen[l.Name] {
				seen[l.Name] = true
				ls = append(ls, l)
			}
		}
		w.Languages = ls
	}
	w.Name = "twins:" + main + " -> " + strings.Join(w.LangNames(), ",")
	w2 := w.Clone()
	pt, yt := mk(twin)
	w2.Files["in/"+twin+"/schema.json"] = pt.RenderJSONSchemaEntry("Thing")
	w2.Files["cfg/veneers/"+twin+".yaml"] = yt
	in2 := InputSpec{Kind: "jsonschema", Path: "in/" + twin + "/schema.json", Package: twin}
	if r.Bool() {
		w2.Inputs = append([]InputSpec{in2}, w2.Inputs...)
	} else {
		w2.Inputs = append(w2.Inputs, in2)
	}
	w2.Name = "twins:" + main + "+" + twin + " -> " + strings.Join(w.LangNames(), ",")
	return w, w2, []string{main}
}

func c07Unrelated(ctx *Ctx, res *CaseResult, dir string, w, w2 *Workload, pkgs []string) (string, []string) {
	base, ok, bex := runFiles(ctx, res, dir, w, simrt.Schedule{Default: simrt.Canonical})
	if !ok {
		ctx.Count("c.base_failed", 1)
		if strings.HasPrefix(w.Name, "twins:") {
			ctx.Count("c.twin_base_failed: "+truncate(digits.ReplaceAllString(bex.ErrString(), "N"), 120), 1)
		}
		return "", nil
	}
	got, ok, _ := runFiles(ctx, res, dir, w2, simrt.Schedule{Default: simrt.Canonical})
	if !ok {
		ctx.Count("c.extended_failed", 1)
		return "", nil // the extra input may legitimately fail on its own
	}
	pk := map[string]bool{}
	for _, p := range pkgs {
		pk[normName(p)] = true
	}
	a, b := map[string]string{}, map[string]string{}
	for p, h := range base {
		if attributedTo(p, pk) && !strings.Contains(strings.ToLower(p), "unrelated") {
			a[p] = h
		}
	}
	for p, h := range got {
		if attributedTo(p, pk) && !strings.Contains(strings.ToLower(p), "unrelated") {
			b[p] = h
		}
	}
	ctx.Count("c.compared_files", len(a))
	if d := diffFileMaps(a, b); len(d) > 0 {
		return "c|" + diffKinds(d), d
	}
	return "", nil
}

// ---- clause (d): same-package merge, at the level of Schemas.Consolidate and
// through the pipeline.

type irObjects map[string]map[string]string // package -> object name -> JSON

func objectsOf(irJSON string) irObjects {
	var schemas []struct {
		Package string
		Objects map[string]json.RawMessage
	}
	out := irObjects{}
	if json.Unmarshal([]byte(irJSON), &schemas) != nil {
		return out
	}
	for _, s := range schemas {
		m := out[s.Package]
		if m == nil {
			m = map[string]string{}
			out[s.Package] = m
		}
		for n, raw := range s.Objects {
			m[n] = string(raw)
		}
	}
	return out
}

func loadIR(ctx *Ctx, res *CaseResult, dir string, w *Workload) (irObjects, bool) {
	_, obs, ex := execWorkload(dir, w, simrt.Schedule{Default: simrt.Canonical}, nil, RunOpts{Inspect: true})
	ctx.Account(ex)
	res.Execs++
	if ex.Panic != nil || obs == nil || obs.ErrLoad != "" || obs.IRLoad == "" {
		if ctx.OptBool("verbose") && obs != nil {
			fmt.Fprintf(os.Stderr, "LOADIR %s: %s\n", w.Name, truncate(obs.ErrLoad, 300))
		}
		return nil, false
	}
	return objectsOf(obs.IRLoad), true
}

// c07Merge: wa and wb each hold one input on package pkg; wab holds both.
func c07Merge(ctx *Ctx, res *CaseResult, dir string, wa, wb, wab *Workload, pkg string) (string, []string) {
	ia, oka := loadIR(ctx, res, dir, wa)
	ib, okb := loadIR(ctx, res, dir, wb)
	if !oka || !okb {
		ctx.Count("d.part_failed", 1)
		return "", nil
	}
	iab, ok := loadIR(ctx, res, dir, wab)
	if !ok {
		ctx.Count("d.merge_error", 1)
		return "", nil // failing is allowed
	}
	ctx.Count("d.merge_ok", 1)
	var d []string
	for _, part := range []irObjects{ia, ib} {
		for name, def := range part[pkg] {
			got, found := iab[pkg][name]
			if !found {
				d = append(d, "dropped:"+name)
			} else if got != def {
				// equal to the other contributor's definition?
				oa, fa := ia[pkg][name]
				ob, fb := ib[pkg][name]
				if (fa && got == oa) || (fb && got == ob) {
					if fa && fb && oa != ob {
						d = append(d, "overwritten:"+name)
					}
					continue
				}
				d = append(d, "altered:"+name)
			}
		}
	}
	sort.Strings(d)
	d = uniqueStrings(d)
	if len(d) > 0 {
		return "d|" + diffKinds(d), d
	}
	return "", nil
}

// ---- clause (e): no mutation of handed schemas

type probePass struct{ seen func(ast.Schemas) }

func (p *probePass) Process(s []*ast.Schema) ([]*ast.Schema, error) {
	p.seen(s)
	return s, nil
}

func snapshot(s ast.Schemas) string {
	var out string
	simrt.Suspend(func() { out = JSONString(s) })
	return out
}

// c07Mutation runs the real Pipeline.Run while holding the schemas that every
// language iteration starts from, and compares them with their snapshot at the
// start of each iteration and at the end.
func c07Mutation(ctx *Ctx, res *CaseResult, dir string, w *Workload, sched simrt.Schedule) (string, []string) {
	_ = os.RemoveAll(dir)
	must(os.MkdirAll(dir, 0o755))
	cfg, err := w.Materialise(dir)
	must(err)
	CurrentDesc.Store("mutation " + w.Name)
	var key string
	var detail []string
	ex := Simulate(sched, nil, pipelineMaxTicks, func() error {
		resetGlobals()
		var shared ast.Schemas
		var snap string
		lastLang := "(load)"
		check := func(at string) {
			if shared == nil || key != "" {
				return
			}
			if now := snapshot(shared); now != snap {
				key = "e|run|" + lastLang
				detail = []string{fmt.Sprintf("schemas shared by all language iterations changed during %s (noticed at %s)", lastLang, at), firstJSONDiff(snap, now)}
			}
		}
		reporter := func(msg string) {
			if strings.HasPrefix(msg, "Running '") {
				check(msg)
				lastLang = strings.TrimSuffix(strings.TrimPrefix(msg, "Running '"), "' jennies...")
			}
		}
		p, err := codegen.PipelineFromFile(cfg, codegen.Parameters(w.ExtraParams()), codegen.Reporter(reporter))
		if err != nil {
			return err
		}
		passes, err := cogyaml.NewCompilerLoader().PassesFrom(p.Transforms.CommonPassesFiles)
		if err != nil {
			return err
		}
		p.Transforms.CommonPasses = append(compiler.Passes{}, passes...)
		p.Transforms.CommonPasses = append(p.Transforms.CommonPasses, &probePass{seen: func(s ast.Schemas) {
			shared = s
			snap = snapshot(s)
		}})
		_, err = p.Run(ctxBackground)
		check("end of run")
		return err
	})
	ctx.Account(ex)
	res.Execs++
	if key == "" && ex.Panic == nil {
		ctx.Count("e.run_checked", 1)
	}
	return key, detail
}

// c07ProcessMutation: LoadSchemas, then for every language ContextForLanguage
// must leave its argument untouched (what `cog inspect` relies on).
func c07ProcessMutation(ctx *Ctx, res *CaseResult, dir string, w *Workload, sched simrt.Schedule) (string, []string) {
	var key string
	var detail []string
	var held ast.Schemas
	var snap string
	_, _, ex := execWorkload(dir, w, sched, nil, RunOpts{Inspect: true,
		OnSchemas: func(s ast.Schemas) { held = s; snap = JSONString(s) },
		OnContext: func(lang string, _ languages.Context) {
			if key != "" || held == nil {
				return
			}
			if now := JSONString(held); now != snap {
				key = "e|context|" + lang
				detail = []string{"ContextForLanguage(" + lang + ") modified the schemas it was handed", firstJSONDiff(snap, now)}
			}
		},
	})
	ctx.Account(ex)
	res.Execs++
	if key == "" {
		ctx.Count("e.context_checked", 1)
	}
	return key, detail
}

func firstJSONDiff(a, b string) string {
	n := len(a)
	if len(b) < n {
		n = len(b)
	}
	i := 0
	for i < n && a[i] == b[i] {
		i++
	}
	lo := i - 120
	if lo < 0 {
		lo = 0
	}
	hiA, hiB := i+120, i+120
	if hiA > len(a) {
		hiA = len(a)
	}
	if hiB > len(b) {
		hiB = len(b)
	}
	return fmt.Sprintf("first difference at byte %d: before ...%s... after ...%s...", i, a[lo:hiA], b[lo:hiB])
}

// ---------------------------------------------------------------- case driver

func c07Workload(r *Rand, ctx *Ctx, dir string, minLangs, maxLangs int) *Workload {
	w := GenWorkload(r, ctx.Corpus, maxLangs, GenOpts{NoAllOf: r.Chance(2, 3)})
	for len(w.Languages) < minLangs {
		w.Languages = GenLanguages(r, minLangs, maxLangs)
	}
	if r.Chance(1, 2) {
		EnrichWorkload(r.Fork("enrich"), w, dir)
	}
	if r.Chance(1, 4) {
		// builders with a common `duplicate` (and `rename`) veneer: rules are closures
		// held by a rewriter that the pipeline caches and reuses for every language
		w.Builders = true
		if schemas := dryLoad(dir, w); schemas != nil {
			view := ViewOf(schemas)
			var rules []string
			for _, p := range view.Pkgs {
				for _, o := range p.Objects {
					if o.Kind == ast.KindStruct && len(rules) < 2 {
						rules = append(rules, fmt.Sprintf("language: all\npackage: %s\nbuilders:\n  - duplicate:\n      by_object: %s\n      as: %sCopy\n", yq(p.Name), yq(o.Name), o.Name))
					}
				}
			}
			for i, y := range rules {
				w.Files[fmt.Sprintf("cfg/veneers_dup/d%d.yaml", i)] = y
			}
			if len(rules) > 0 {
				w.VeneerDirs = append(w.VeneerDirs, "cfg/veneers_dup")
				w.Name += " +duplicate-veneer"
			}
		}
	}
	w.RepoTpl = "" // repository templates are not attributed to a language
	if sr := r.Side("final-passes"); sr.Chance(1, 4) {
		AddFinalPasses(sr, w)
	}
	return w
}

func init() {
	Register(&Property{
		ID: "C07",
		Setup: func(ctx *Ctx) {
			ctx.Corpus = LoadCorpus(ctx.RepoRoot)
		},
		RunCase: func(ctx *Ctx, seed uint64, idx int) *CaseResult {
			r := NewRand(seed)
			dir := filepath.Join(ctx.Dirs.Root, "case")
			res := &CaseResult{}
			defer os.RemoveAll(dir)
			add := func(key string, what string, p c07Payload) {
				res.Violations = append(res.Violations, Violation{Key: key, What: what, Payload: p})
			}
			clause := []string{"a", "a", "b", "c", "d", "e", "e2"}[idx%7]
			sample := map[string]any{"clause": clause}
			switch clause {
			case "a":
				w := c07Workload(r, ctx, dir, 2, 4)
				if r.Chance(1, 8) {
					w.Languages = GenLanguages(r, 5, 7)
				}
				if sr := r.Side("shared-option"); sr.Chance(1, 10) {
					w = GenSharedOptionWorkload(sr)
				}
				sched := simrt.Schedule{Default: Pick(r, []simrt.Policy{simrt.Canonical, simrt.Reverse, simrt.Shuffle}), Seed: r.U64(), KeyOrder: Shuffled(r, allLanguages)}
				sample["workload"], sample["language_order"] = w.Name, sched.KeyOrder
				key, lang, d := c07Alone(ctx, res, dir, w, sched)
				res.Nontrivial = append(res.Nontrivial, ShaStr("a"+w.Fingerprint()+fmt.Sprint(sched.KeyOrder)))
				if key != "" {
					// shrink: fewer sibling languages
					b := 12
					wmin := shrinkWorkload(w, func(c *Workload) bool {
						has := false
						for _, l := range c.Languages {
							has = has || l.Name == lang
						}
						if !has || len(c.Languages) < 2 {
							return false
						}
						k, _, _ := c07Alone(ctx, res, dir, c, sched)
						return k == key
					}, &b)
					add(key, fmt.Sprintf("files generated for %s differ between generating it alone and together with %v: %v", lang, wmin.LangNames(), firstN(d, 6)),
						c07Payload{Clause: "a", W: wmin, Sched: sched, Lang: lang, Detail: firstN(d, 20)})
				}
			case "b":
				w := c07Workload(r, ctx, dir, 1, 3)
				for len(w.Inputs) < 2 {
					w = c07Workload(r, ctx, dir, 1, 3)
				}
				perm := r.permNonIdentity(len(w.Inputs))
				if r.Chance(1, 4) {
					// many small inputs, two of which contribute (disjoint objects) to one
					// package; the permutation moves only the inputs of other packages
					w, perm = genManyInputs(r)
				}
				sample["workload"], sample["permutation"] = w.Name, perm
				res.Nontrivial = append(res.Nontrivial, ShaStr("b"+w.Fingerprint()+fmt.Sprint(perm)))
				key, d := c07InputOrder(ctx, res, dir, w, perm)
				if key != "" {
					p := w.Clone()
					for i, j := range perm {
						p.Inputs[i] = w.Inputs[j]
					}
					add(key, fmt.Sprintf("reordering inputs %v of %s changes generated files: %v", perm, w.Name, firstN(d, 6)),
						c07Payload{Clause: "b", W: w, W2: p, Detail: firstN(d, 20)})
				}
			case "c":
				w := c07Workload(r, ctx, dir, 1, 3)
				w2 := unrelatedInput(r, w)
				var pkgs []string
				for _, in := range w.Inputs {
					pk := in.Package
					if pk == "" {
						pk = filepath.Base(in.Path)
					}
					pkgs = append(pkgs, pk)
				}
				if sr := r.Side("twins"); sr.Chance(1, 3) || ctx.Opt["twins"] != "" {
					w, w2, pkgs = twinWorkloads(sr)
					ctx.Count("c.twin_cases", 1)
				}
				sample["workload"], sample["packages"] = w.Name, pkgs
				res.Nontrivial = append(res.Nontrivial, ShaStr("c"+w2.Fingerprint()))
				key, d := c07Unrelated(ctx, res, dir, w, w2, pkgs)
				if key != "" {
					add(key, fmt.Sprintf("adding an input for an unreferenced package changes files of other packages (%s): %v", w.Name, firstN(d, 6)),
						c07Payload{Clause: "c", W: w, W2: w2, Detail: append([]string{"packages=" + strings.Join(pkgs, ",")}, firstN(d, 20)...)})
				}
			case "d":
				wa, wb, wab, pkg, mode := genMergeWorkloads(r)
				sample["mode"], sample["package"] = mode, pkg
				res.Nontrivial = append(res.Nontrivial, ShaStr("d"+wab.Fingerprint()))
				okBefore := ctx.Stats.Counters["d.merge_ok"]
				key, d := c07Merge(ctx, res, dir, wa, wb, wab, pkg)
				if ctx.Stats.Counters["d.merge_ok"] > okBefore {
					ctx.Count("d.merge_ok."+mode, 1)
				} else {
					ctx.Count("d.merge_not_ok."+mode, 1)
				}
				if key == "" {
					// and in the other order
					rev := wab.Clone()
					rev.Inputs[0], rev.Inputs[1] = rev.Inputs[1], rev.Inputs[0]
					key, d = c07Merge(ctx, res, dir, wa, wb, rev, pkg)
					wab = rev
				}
				if key != "" {
					add(key, fmt.Sprintf("two inputs contributing to package %s (%s): %v", pkg, mode, firstN(d, 6)),
						c07Payload{Clause: "d", W: wab, W2: wa, Lang: pkg, Detail: firstN(d, 20)})
					// wb travels in Detail-free form: replay rebuilds it from wab's second input
				}
			case "e":
				w := c07Workload(r, ctx, dir, 2, 4)
				sched := simrt.Schedule{Default: simrt.Canonical, KeyOrder: Shuffled(r, allLanguages)}
				sample["workload"], sample["language_order"] = w.Name, sched.KeyOrder
				res.Nontrivial = append(res.Nontrivial, ShaStr("e"+w.Fingerprint()+fmt.Sprint(sched.KeyOrder)))
				key, d := c07Mutation(ctx, res, dir, w, sched)
				if key != "" {
					add(key, fmt.Sprintf("Pipeline.Run: %v (workload %s)", firstN(d, 2), w.Name), c07Payload{Clause: "e", W: w, Sched: sched, Detail: d})
				}
			case "e2":
				w := c07Workload(r, ctx, dir, 2, 5)
				sched := simrt.Schedule{Default: simrt.Canonical}
				sample["workload"] = w.Name
				res.Nontrivial = append(res.Nontrivial, ShaStr("e2"+w.Fingerprint()))
				key, d := c07ProcessMutation(ctx, res, dir, w, sched)
				if key != "" {
					add(key, fmt.Sprintf("%v (workload %s)", firstN(d, 2), w.Name), c07Payload{Clause: "e2", W: w, Sched: sched, Detail: d})
				}
			}
			res.Sample = sample
			return res
		},
		Replay: func(ctx *Ctx, payload json.RawMessage) (string, string) {
			var p c07Payload
			must(json.Unmarshal(payload, &p))
			dir := filepath.Join(ctx.Dirs.Root, "replay")
			defer os.RemoveAll(dir)
			res := &CaseResult{}
			switch p.Clause {
			case "a":
				k, _, d := c07Alone(ctx, res, dir, p.W, p.Sched)
				return k, fmt.Sprint(firstN(d, 6))
			case "b":
				n := len(p.W.Inputs)
				perm := make([]int, n)
				for i := range perm {
					for j := range p.W.Inputs {
						if JSONHash(p.W2.Inputs[i]) == JSONHash(p.W.Inputs[j]) {
							perm[i] = j
						}
					}
				}
				k, d := c07InputOrder(ctx, res, dir, p.W, perm)
				return k, fmt.Sprint(firstN(d, 6))
			case "c":
				var pkgs []string
				if len(p.Detail) > 0 {
					pkgs = strings.Split(strings.TrimPrefix(p.Detail[0], "packages="), ",")
				}
				k, d := c07Unrelated(ctx, res, dir, p.W, p.W2, pkgs)
				return k, fmt.Sprint(firstN(d, 6))
			case "d":
				wa := p.W.Clone()
				wa.Inputs = []InputSpec{p.W.Inputs[0]}
				wb := p.W.Clone()
				wb.Inputs = []InputSpec{p.W.Inputs[1]}
				k, d := c07Merge(ctx, res, dir, wa, wb, p.W, p.Lang)
				return k, fmt.Sprint(firstN(d, 6))
			case "e":
				k, d := c07Mutation(ctx, res, dir, p.W, p.Sched)
				return k, fmt.Sprint(firstN(d, 2))
			case "e2":
				k, d := c07ProcessMutation(ctx, res, dir, p.W, p.Sched)
				return k, fmt.Sprint(firstN(d, 2))
			}
			return "", ""
		},
	})
}

// genManyInputs: 13-20 tiny inputs on different packages plus two inputs on a
// shared package, and a permutation that keeps the relative order of those two.
func genManyInputs(r *Rand) (*Workload, []int) {
	w := &Workload{Files: map[string]string{}, Types: true}
	n := 13 + r.Intn(8)
	tiny := func(pkg, obj string) *WPackage {
		return &WPackage{Name: pkg, Objects: []WObject{{Name: obj, T: &WType{K: "struct", Fields: []WField{{Name: "id", T: &WType{K: "string"}, Required: true}, {Name: obj + "Field", T: &WType{K: "int"}}}}}}}
	}
	add := func(p *WPackage, tag, root string) {
		path := fmt.Sprintf("in/%s/schema.json", tag)
		w.Files[path] = p.renderJSONSchemaRoot(root)
		w.Inputs = append(w.Inputs, InputSpec{Kind: "jsonschema", Path: path, Package: p.Name})
	}
	for i := 0; i < n; i++ {
		add(tiny(fmt.Sprintf("pk%02d", i), fmt.Sprintf("Thing%02d", i)), fmt.Sprintf("p%02d", i), "Root")
	}
	add(tiny("shared", "FirstHalf"), "sharedA", "RootA")
	add(tiny("shared", "SecondHalf"), "sharedB", "RootB")
	w.Inputs = Shuffled(r, w.Inputs)
	w.Languages = GenLanguages(r, 1, 2)
	w.Name = fmt.Sprintf("many-inputs:%d+2shared -> %s", n, strings.Join(w.LangNames(), ","))
	// permutation: shuffle the positions of the non-shared inputs only
	var free []int
	for i, in := range w.Inputs {
		if in.Package != "shared" {
			free = append(free, i)
		}
	}
	perm := make([]int, len(w.Inputs))
	for i := range perm {
		perm[i] = i
	}
	sh := Shuffled(r, free)
	for k, pos := range free {
		perm[pos] = sh[k]
	}
	// and move the shared pair as a block relative to the others: rotate everything
	rot := 1 + r.Intn(len(perm)-1)
	_ = rot
	return w, perm
}

func (r *Rand) permNonIdentity(n int) []int {
	idx := make([]int, n)
	for i := range idx {
		idx[i] = i
	}
	for tries := 0; tries < 10; tries++ {
		p := Shuffled(r, idx)
		same := true
		for i := range p {
			if p[i] != i {
				same = false
			}
		}
		if !same {
			return p
		}
	}
	// rotate
	return append(idx[1:], idx[0])
}

// genMergeWorkloads builds two single-input workloads on the same package and
// the workload holding both. mode: identical | disjoint | conflicting | overlapping.
func genMergeWorkloads(r *Rand) (wa, wb, wab *Workload, pkg string, mode string) {
	pkg = "merged"
	mode = Pick(r, []string{"identical", "disjoint", "disjoint", "conflicting", "overlapping"})
	format := Pick(r, []string{"jsonschema", "openapi"})
	base := func() *Workload {
		return &Workload{Files: map[string]string{}, Languages: []LangSpec{{Name: "typescript", Flags: map[string]string{}}}, Types: true}
	}
	seedA, seedB := r.U64(), r.U64()
	pa := GenPackage(NewRand(seedA), pkg, GenOpts{NoAllOf: true})
	var pb *WPackage
	hintOnlyB := false
	switch mode {
	case "identical":
		pb = pa
	case "disjoint":
		pb = GenPackage(NewRand(seedB), pkg, GenOpts{NoAllOf: true})
		renameAll(pb, "B")
	case "conflicting":
		// the same package again (same seed), then one definition is changed
		pb = GenPackage(NewRand(seedA), pkg, GenOpts{NoAllOf: true})
		// same names, one definition changed
		o := &pb.Objects[r.Intn(len(pb.Objects))]
		o.T = &WType{K: "struct", Fields: []WField{{Name: "conflicting_field", T: &WType{K: "bool"}, Required: true}}}
		if sr := r.Side("subtle-conflict"); sr.Chance(1, 2) {
			// a redefinition that differs in one detail only: the letter case of a referred
			// object's name (both spellings exist), a field's required flag, a scalar's kind
			pb = GenPackage(NewRand(seedA), pkg, GenOpts{NoAllOf: true})
			have := map[string]bool{}
			for _, ob := range pb.Objects {
				have[ob.Name] = true
			}
			if !have["Unit"] {
				pb.Objects = append(pb.Objects, WObject{Name: "Unit", T: &WType{K: "enum", Enum: []any{"s", "ms"}}}, WObject{Name: "unit", T: &WType{K: "struct", Fields: []WField{{Name: "symbol", T: &WType{K: "string"}}}}},
					WObject{Name: "Measure", T: &WType{K: "struct", Fields: []WField{{Name: "value", T: &WType{K: "number"}, Required: true}, {Name: "unit", T: &WType{K: "ref", Ref: "Unit"}, Required: true}}}})
				pa.Objects = append(pa.Objects, WObject{Name: "Unit", T: &WType{K: "enum", Enum: []any{"s", "ms"}}}, WObject{Name: "unit", T: &WType{K: "struct", Fields: []WField{{Name: "symbol", T: &WType{K: "string"}}}}},
					WObject{Name: "Measure", T: &WType{K: "struct", Fields: []WField{{Name: "value", T: &WType{K: "number"}, Required: true}, {Name: "unit", T: &WType{K: "ref", Ref: "Unit"}, Required: true}}}})
			}
			m := &pb.Objects[len(pb.Objects)-1]
			switch sr.Intn(4) {
			case 3:
				// the two definitions are the same text; the second input carries a
				// transformation that puts a hint on the object: they differ in a hint only
				hintOnlyB = true
			case 0:
				m.T.Fields[1].T = &WType{K: "ref", Ref: "unit"}
			case 1:
				m.T.Fields[0].Required = false
			default:
				m.T.Fields[0].T = &WType{K: "int"}
			}
		}
	default:
		// B = A's objects (identical) + extra objects of its own
		pb = GenPackage(NewRand(seedA), pkg, GenOpts{NoAllOf: true})
		extra := GenPackage(NewRand(seedB), pkg, GenOpts{NoAllOf: true})
		renameAll(extra, "B")
		pb.Objects = append(pb.Objects, extra.Objects...)
	}
	render := func(w *Workload, p *WPackage, tag string) InputSpec {
		switch format {
		case "openapi":
			path := "in/" + tag + "/openapi.json"
			w.Files[path] = p.RenderOpenAPI()
			return InputSpec{Kind: "openapi", Path: path, Package: pkg, NoValidate: true}
		default:
			path := "in/" + tag + "/schema.json"
			w.Files[path] = p.renderJSONSchemaRoot("Root" + strings.ToUpper(tag))
			return InputSpec{Kind: "jsonschema", Path: path, Package: pkg}
		}
	}
	rootTag := "b"
	if mode == "identical" {
		rootTag = "a" // the root envelope must be identical too
	}
	wa, wb, wab = base(), base(), base()
	ia := render(wa, pa, "a")
	wa.Inputs = []InputSpec{ia}
	ib := render(wb, pb, rootTag)
	if mode == "identical" {
		// same content under a second path
		wb.Files["in/b/"+filepath.Base(ib.Path)] = wb.Files[ib.Path]
		delete(wb.Files, ib.Path)
		ib.Path = "in/b/" + filepath.Base(ib.Path)
	}
	if hintOnlyB {
		wb.Files["cfg/hint_b.yaml"] = "passes:\n  - hint_object:\n      object: " + pkg + ".Measure\n      hints:\n        implements_variant: dataquery\n"
		ib.Transformations = []string{"cfg/hint_b.yaml"}
	}
	wb.Inputs = []InputSpec{ib}
	for k, v := range wa.Files {
		wab.Files[k] = v
	}
	for k, v := range wb.Files {
		wab.Files[k] = v
	}
	wab.Inputs = []InputSpec{ia, ib}
	wa.Name, wb.Name, wab.Name = "merge-part-a", "merge-part-b", "merge:"+mode+":"+format
	return
}

func renameAll(p *WPackage, prefix string) {
	ren := map[string]string{}
	for i := range p.Objects {
		ren[p.Objects[i].Name] = prefix + p.Objects[i].Name
		p.Objects[i].Name = prefix + p.Objects[i].Name
	}
	var walk func(t *WType)
	walk = func(t *WType) {
		if t == nil {
			return
		}
		if t.K == "ref" || t.K == "constref" {
			if n, ok := ren[t.Ref]; ok {
				t.Ref = n
			}
		}
		walk(t.Elem)
		for _, b := range t.Branches {
			walk(b)
		}
		for i := range t.Fields {
			walk(t.Fields[i].T)
		}
		for i := range t.DiscMap {
			if n, ok := ren[t.DiscMap[i][1]]; ok {
				t.DiscMap[i][1] = n
			}
		}
	}
	for i := range p.Objects {
		walk(p.Objects[i].T)
	}
}
