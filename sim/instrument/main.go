// Command instrument rewrites a scratch copy of grafana/cog so that every
// source of nondeterminism sits behind the simulator runtime (verif.local/simrt).
//
// It works on byte offsets of the original source (no re-printing), so
// comments, build constraints and //go:embed directives are untouched.
//
//	S1  `range m` with m of map core type        -> `range simrt.MapSeq(m, "site")`
//	S5  every function body / loop body          -> simrt.Enter();defer simrt.Leave() / simrt.Tick()
//	S7  methods named DeepCopy in -copy packages -> wrapper reporting (receiver, result) to simrt.CopyLeave
//	S2  os.Open/ReadFile/ReadDir/Stat/Getwd, filepath.WalkDir/Glob -> simrt twins
//
// Usage: instrument -dir <scratch copy root> [-skip prefix,prefix] [-copy pkgsuffix,pkgsuffix] -sites out.json
package main

import (
	"encoding/json"
	"flag"
	"fmt"
	"go/ast"
	"go/token"
	"go/types"
	"os"
	"sort"
	"strings"

	"golang.org/x/tools/go/packages"
)

type edit struct {
	off  int
	text string
	seq  int
}

type site struct {
	ID   string `json:"id"`
	File string `json:"file"`
	Line int    `json:"line"`
	Key  string `json:"key_type"`
}

var fsTwins = map[string]string{
	"os.Open":          "simrt.OsOpen",
	"os.ReadFile":      "simrt.OsReadFile",
	"os.ReadDir":       "simrt.OsReadDir",
	"os.Stat":          "simrt.OsStat",
	"os.Getwd":         "simrt.OsGetwd",
	"filepath.WalkDir": "simrt.FilepathWalkDir",
	"filepath.Glob":    "simrt.FilepathGlob",
}

func main() {
	dir := flag.String("dir", "", "root of the scratch copy (a Go module)")
	skip := flag.String("skip", "internal/zzverif,internal/testutils", "comma separated package path fragments to leave alone")
	copyPkgs := flag.String("copy", "internal/ast,internal/orderedmap", "package path suffixes whose DeepCopy methods are monitored")
	sitesOut := flag.String("sites", "", "write the list of map-range sites here")
	noTick := flag.Bool("notick", false, "do not insert Enter/Leave/Tick")
	depPkgs := flag.String("deps", "", "dependency mode: comma separated package paths (resolved from -dir's module) whose map ranges are put behind the seam with the three-clause rewrite; nothing else is touched")
	flag.Parse()
	if *dir == "" {
		fmt.Fprintln(os.Stderr, "instrument: -dir required")
		os.Exit(2)
	}
	skips := strings.Split(*skip, ",")
	copies := strings.Split(*copyPkgs, ",")

	cfg := &packages.Config{
		Mode: packages.NeedName | packages.NeedFiles | packages.NeedCompiledGoFiles | packages.NeedSyntax |
			packages.NeedTypes | packages.NeedTypesInfo | packages.NeedImports | packages.NeedDeps,
		Dir:   *dir,
		Tests: false,
	}
	patterns := []string{"./..."}
	depMode := *depPkgs != ""
	if depMode {
		patterns = strings.Split(*depPkgs, ",")
		*noTick = true
		skips = nil
		copies = nil
	}
	pkgs, err := packages.Load(cfg, patterns...)
	if err != nil {
		fmt.Fprintln(os.Stderr, "instrument: load:", err)
		os.Exit(2)
	}
	bad := false
	for _, p := range pkgs {
		for _, e := range p.Errors {
			fmt.Fprintln(os.Stderr, "instrument: package error:", e)
			bad = true
		}
	}
	if bad {
		os.Exit(2)
	}

	var sites []site
	unroutable := 0
	for _, p := range pkgs {
		skipIt := false
		for _, s := range skips {
			if s != "" && strings.Contains(p.PkgPath, s) {
				skipIt = true
			}
		}
		if skipIt {
			continue
		}
		monitorCopies := false
		for _, s := range copies {
			if s != "" && strings.HasSuffix(p.PkgPath, s) {
				monitorCopies = true
			}
		}
		for i, f := range p.Syntax {
			fname := p.CompiledGoFiles[i]
			if !strings.HasSuffix(fname, ".go") || strings.HasSuffix(fname, "_test.go") {
				continue
			}
			src, err := os.ReadFile(fname)
			if err != nil {
				fmt.Fprintln(os.Stderr, "instrument:", err)
				os.Exit(2)
			}
			in := &instr{pkg: p, file: f, fset: p.Fset, src: src, noTick: *noTick, monitorCopies: monitorCopies, depMode: depMode}
			in.run()
			unroutable += in.unroutable
			sites = append(sites, in.sites...)
			if len(in.edits) == 0 {
				continue
			}
			out := in.apply()
			if err := os.WriteFile(fname, out, 0o644); err != nil {
				fmt.Fprintln(os.Stderr, "instrument:", err)
				os.Exit(2)
			}
		}
	}
	if unroutable > 0 && depMode {
		fmt.Fprintf(os.Stderr, "instrument: %d map enumeration(s) in dependencies keep the runtime's order\n", unroutable)
		unroutable = 0
	}
	if unroutable > 0 {
		fmt.Fprintf(os.Stderr, "instrument: %d map enumeration(s) could not be routed through the seam\n", unroutable)
		os.Exit(2)
	}
	sort.Slice(sites, func(i, j int) bool { return sites[i].ID < sites[j].ID })
	if *sitesOut != "" {
		b, _ := json.MarshalIndent(sites, "", " ")
		if err := os.WriteFile(*sitesOut, b, 0o644); err != nil {
			fmt.Fprintln(os.Stderr, "instrument:", err)
			os.Exit(2)
		}
	}
	fmt.Printf("instrument: %d map-range sites\n", len(sites))
}

type instr struct {
	pkg           *packages.Package
	file          *ast.File
	fset          *token.FileSet
	src           []byte
	edits         []edit
	sites         []site
	noTick        bool
	depMode       bool
	monitorCopies bool
	unroutable    int
	usedOS        bool
	usedFilepath  bool
	wrappers      []string
	perFunc       map[string]int
	iterN         int
}

func (in *instr) off(p token.Pos) int { return in.fset.Position(p).Offset }

func (in *instr) add(p token.Pos, text string) {
	in.edits = append(in.edits, edit{off: in.off(p), text: text, seq: len(in.edits)})
}

func (in *instr) replace(from, to token.Pos, text string) {
	// encoded as: delete marker handled in apply through a negative-length trick:
	// we store a special edit with a \x00 prefix carrying the end offset.
	in.edits = append(in.edits, edit{off: in.off(from), text: fmt.Sprintf("\x00%d\x00%s", in.off(to), text), seq: len(in.edits)})
}

func (in *instr) apply() []byte {
	sort.SliceStable(in.edits, func(i, j int) bool {
		if in.edits[i].off != in.edits[j].off {
			return in.edits[i].off < in.edits[j].off
		}
		return in.edits[i].seq < in.edits[j].seq
	})
	var out []byte
	pos := 0
	for _, e := range in.edits {
		if e.off < pos {
			// inside a replaced region: drop
			continue
		}
		out = append(out, in.src[pos:e.off]...)
		pos = e.off
		if strings.HasPrefix(e.text, "\x00") {
			rest := e.text[1:]
			k := strings.IndexByte(rest, 0)
			var end int
			fmt.Sscanf(rest[:k], "%d", &end)
			out = append(out, rest[k+1:]...)
			pos = end
			continue
		}
		out = append(out, e.text...)
	}
	out = append(out, in.src[pos:]...)
	for _, w := range in.wrappers {
		out = append(out, '\n')
		out = append(out, w...)
	}
	if in.usedOS {
		out = append(out, "\nvar _ = os.ErrNotExist\n"...)
	}
	if in.usedFilepath {
		out = append(out, "\nvar _ = filepath.Separator\n"...)
	}
	return out
}

func funcName(fd *ast.FuncDecl, info *types.Info) string {
	name := fd.Name.Name
	if fd.Recv != nil && len(fd.Recv.List) == 1 {
		t := fd.Recv.List[0].Type
		star := ""
		if s, ok := t.(*ast.StarExpr); ok {
			t = s.X
			star = "*"
		}
		switch x := t.(type) {
		case *ast.Ident:
			return "(" + star + x.Name + ")." + name
		case *ast.IndexExpr:
			if id, ok := x.X.(*ast.Ident); ok {
				return "(" + star + id.Name + ")." + name
			}
		case *ast.IndexListExpr:
			if id, ok := x.X.(*ast.Ident); ok {
				return "(" + star + id.Name + ")." + name
			}
		}
	}
	return name
}

func isMap(t types.Type) bool {
	if t == nil {
		return false
	}
	switch u := t.Underlying().(type) {
	case *types.Map:
		return true
	case *types.Interface:
		// type parameter: core type
		if tp, ok := t.(*types.TypeParam); ok {
			_ = tp
			var core types.Type
			same := true
			u.NumEmbeddeds()
			iface := u
			for i := 0; i < iface.NumEmbeddeds(); i++ {
				et := iface.EmbeddedType(i)
				if un, ok := et.(*types.Union); ok {
					for j := 0; j < un.Len(); j++ {
						ct := un.Term(j).Type().Underlying()
						if core == nil {
							core = ct
						} else if !types.Identical(core, ct) {
							same = false
						}
					}
				} else {
					ct := et.Underlying()
					if core == nil {
						core = ct
					} else if !types.Identical(core, ct) {
						same = false
					}
				}
			}
			if same && core != nil {
				_, ok := core.(*types.Map)
				return ok
			}
		}
	}
	return false
}

func (in *instr) run() {
	info := in.pkg.TypesInfo
	in.perFunc = map[string]int{}
	touched := false

	var curFunc string
	var visit func(n ast.Node) bool
	visit = func(n ast.Node) bool {
		switch x := n.(type) {
		case *ast.FuncDecl:
			if x.Body == nil {
				return true
			}
			prev := curFunc
			curFunc = funcName(x, info)
			if !in.noTick {
				in.add(x.Body.Lbrace+1, "simrt.Enter();defer simrt.Leave();")
				touched = true
			}
			if in.monitorCopies && x.Name.Name == "DeepCopy" && x.Recv != nil && x.Type.Results != nil && len(x.Type.Results.List) == 1 && len(x.Type.Params.List) == 0 {
				in.wrapCopy(x)
				touched = true
			}
			ast.Inspect(x.Body, visit)
			curFunc = prev
			return false
		case *ast.FuncLit:
			if !in.noTick {
				in.add(x.Body.Lbrace+1, "simrt.Enter();defer simrt.Leave();")
				touched = true
			}
			return true
		case *ast.ForStmt:
			if !in.noTick {
				in.add(x.Body.Lbrace+1, "simrt.Tick();")
				touched = true
			}
			return true
		case *ast.RangeStmt:
			if !in.noTick {
				in.add(x.Body.Lbrace+1, "simrt.Tick();")
				touched = true
			}
			tv, ok := info.Types[x.X]
			if ok && isMap(tv.Type) {
				fn := curFunc
				if fn == "" {
					fn = "init"
				}
				k := in.perFunc[fn]
				in.perFunc[fn] = k + 1
				id := fmt.Sprintf("%s.%s#%d", in.pkg.PkgPath, fn, k)
				pos := in.fset.Position(x.Pos())
				keyT := ""
				if m, ok := tv.Type.Underlying().(*types.Map); ok {
					keyT = m.Key().String()
				}
				in.sites = append(in.sites, site{ID: id, File: pos.Filename, Line: pos.Line, Key: keyT})
				if in.depMode {
					in.threeClause(x, id)
				} else {
					in.add(x.X.Pos(), "simrt.MapSeq(")
					in.add(x.X.End(), fmt.Sprintf(", %q)", id))
				}
				touched = true
			}
			return true
		case *ast.CallExpr:
			// map enumerations that are not range statements
			if sel, ok := x.Fun.(*ast.SelectorExpr); ok && in.depMode {
				if obj := info.Uses[sel.Sel]; obj != nil && obj.Pkg() != nil {
					full := obj.Pkg().Path() + "." + obj.Name()
					switch full {
					case "maps.Keys", "maps.Values", "maps.All", "golang.org/x/exp/maps.Keys", "golang.org/x/exp/maps.Values":
						in.unroutable++
						fmt.Fprintf(os.Stderr, "instrument: %s: call to %s keeps the runtime's order (dependency)\n", in.fset.Position(x.Pos()), full)
					}
					if fn, ok := obj.(*types.Func); ok {
						if sig, ok := fn.Type().(*types.Signature); ok && sig.Recv() != nil && sig.Recv().Type().String() == "reflect.Value" && (obj.Name() == "MapKeys" || obj.Name() == "MapRange") {
							in.unroutable++
							fmt.Fprintf(os.Stderr, "instrument: %s: reflect map enumeration keeps the runtime's order (dependency)\n", in.fset.Position(x.Pos()))
						}
					}
				}
				return true
			}
			if sel, ok := x.Fun.(*ast.SelectorExpr); ok {
				if obj := info.Uses[sel.Sel]; obj != nil && obj.Pkg() != nil {
					full := obj.Pkg().Path() + "." + obj.Name()
					switch full {
					case "maps.Keys", "maps.Values", "maps.All":
						// the iterator over a map is routed like a range statement:
						// maps.Values(m) -> simrt.RouteValues(maps.Values(m), m, "site")
						routed := false
						if len(x.Args) == 1 {
							if tv, ok := info.Types[x.Args[0]]; ok && isMap(tv.Type) {
								pos := in.fset.Position(x.Args[0].Pos())
								if src, err := os.ReadFile(pos.Filename); err == nil {
									arg := string(src[in.off(x.Args[0].Pos()):in.off(x.Args[0].End())])
									fn := curFunc
									if fn == "" {
										fn = "init"
									}
									k := in.perFunc[fn]
									in.perFunc[fn] = k + 1
									id := fmt.Sprintf("%s.%s#%d", in.pkg.PkgPath, fn, k)
									keyT := ""
									if m, ok := tv.Type.Underlying().(*types.Map); ok {
										keyT = m.Key().String()
									}
									in.sites = append(in.sites, site{ID: id, File: pos.Filename, Line: pos.Line, Key: keyT})
									in.add(x.Pos(), "simrt.Route"+obj.Name()+"(")
									in.add(x.End(), fmt.Sprintf(", %s, %q)", arg, id))
									touched = true
									routed = true
								}
							}
						}
						if !routed {
							in.unroutable++
							fmt.Fprintf(os.Stderr, "instrument: %s: call to %s is not routed\n", in.fset.Position(x.Pos()), full)
						}
					case "golang.org/x/exp/maps.Keys", "golang.org/x/exp/maps.Values":
						in.unroutable++
						fmt.Fprintf(os.Stderr, "instrument: %s: call to %s is not routed\n", in.fset.Position(x.Pos()), full)
					}
					if fn, ok := obj.(*types.Func); ok {
						if sig, ok := fn.Type().(*types.Signature); ok && sig.Recv() != nil {
							if sig.Recv().Type().String() == "reflect.Value" && (obj.Name() == "MapKeys" || obj.Name() == "MapRange") {
								in.unroutable++
								fmt.Fprintf(os.Stderr, "instrument: %s: reflect map enumeration is not routed\n", in.fset.Position(x.Pos()))
							}
						}
					}
				}
			}
			return true
		case *ast.SelectorExpr:
			if in.depMode {
				return true
			}
			if id, ok := x.X.(*ast.Ident); ok {
				if pn, ok := info.Uses[id].(*types.PkgName); ok {
					short := ""
					switch pn.Imported().Path() {
					case "os":
						short = "os." + x.Sel.Name
					case "path/filepath":
						short = "filepath." + x.Sel.Name
					}
					if twin, ok := fsTwins[short]; ok {
						in.replace(x.Pos(), x.End(), twin)
						if strings.HasPrefix(short, "os.") {
							in.usedOS = true
						} else {
							in.usedFilepath = true
						}
						touched = true
					}
				}
			}
			return true
		}
		return true
	}
	for _, d := range in.file.Decls {
		ast.Inspect(d, visit)
	}
	// os / filepath may have been imported under another name: only emit the
	// keep-alive when the default name is what the file uses.
	if in.usedOS && !in.importsAs("os", "os") {
		in.usedOS = false
	}
	if in.usedFilepath && !in.importsAs("path/filepath", "filepath") {
		in.usedFilepath = false
	}
	if touched {
		in.add(in.file.Name.End(), ";import simrt \"verif.local/simrt\"")
	}
}

// threeClause rewrites `for k, v := range m {` into
// `for it := simrt.Iter(m, site); it.Next(); { k, v := it.K, it.V;` - the form that
// compiles under go directives older than range-over-func.
func (in *instr) threeClause(x *ast.RangeStmt, id string) {
	in.iterN++
	it := fmt.Sprintf("simIt%d_", in.iterN)
	text := func(e ast.Expr) string { return string(in.src[in.off(e.Pos()):in.off(e.End())]) }
	in.replace(x.For, x.X.Pos(), "for "+it+" := simrt.Iter(")
	in.add(x.X.End(), fmt.Sprintf(", %q); %s.Next(); ", id, it))
	var lhs, rhs []string
	blank := func(e ast.Expr) bool {
		if e == nil {
			return true
		}
		i, ok := e.(*ast.Ident)
		return ok && i.Name == "_"
	}
	if !blank(x.Key) {
		lhs = append(lhs, text(x.Key))
		rhs = append(rhs, it+".K")
	}
	if !blank(x.Value) {
		lhs = append(lhs, text(x.Value))
		rhs = append(rhs, it+".V")
	}
	if len(lhs) > 0 {
		// the original body keeps its own block: it may redeclare the range variables
		in.add(x.Body.Lbrace+1, strings.Join(lhs, ", ")+" "+x.Tok.String()+" "+strings.Join(rhs, ", ")+";{")
		in.add(x.Body.Rbrace, "}")
	}
}

func (in *instr) importsAs(path, name string) bool {
	for _, imp := range in.file.Imports {
		if strings.Trim(imp.Path.Value, "\"") == path {
			return imp.Name == nil || imp.Name.Name == name
		}
	}
	return false
}

// wrapCopy renames `func (r T) DeepCopy() R` to DeepCopy__orig and appends a
// wrapper that reports (receiver, result) to the copy monitor.
func (in *instr) wrapCopy(fd *ast.FuncDecl) {
	recvField := fd.Recv.List[0]
	if len(recvField.Names) != 1 {
		return
	}
	recvName := recvField.Names[0].Name
	recvText := string(in.src[in.off(fd.Recv.Pos()):in.off(fd.Recv.End())])
	resText := string(in.src[in.off(fd.Type.Results.List[0].Type.Pos()):in.off(fd.Type.Results.List[0].Type.End())])
	_, isPtr := recvField.Type.(*ast.StarExpr)
	origArg := "&" + recvName
	if isPtr {
		origArg = recvName
	}
	siteID := fmt.Sprintf("%s.%s", in.pkg.PkgPath, funcName(fd, in.pkg.TypesInfo))
	in.replace(fd.Name.Pos(), fd.Name.End(), "DeepCopy__orig")
	in.wrappers = append(in.wrappers, fmt.Sprintf(
		"func %s DeepCopy() %s {\n\tsimrt.CopyEnter()\n\tcp__ := %s.DeepCopy__orig()\n\tsimrt.CopyLeave(%s, &cp__, %q)\n\treturn cp__\n}\n",
		recvText, resText, recvName, origArg, siteID))
}
